"""trace_handlers/*.py  ->  coq/gen/GenEnums.v, coq/gen/GenDecoders.v      (C07 C08 C09 C10 C11 C17 C18)

For every registered decoder  'NAME': handle_x [partial(..., no_cancel=True)]  the translator symbolically executes
the handler body and the `__str__` of the dataclass it returns (Python `ast` only, nothing imported) and emits ONE row

    (family, key, handler, nocancel, tokens)

in the token language of coq/theories/DecoderDSL.v.  Everything outside the recognised subset raises
TranslateError for that row (fail-closed): the row is then listed in `untranslated` with the rule that failed, and
the set of untranslated rows must be a subset of HAND_MODELLED (decoders with their own hand model), otherwise the
translation as a whole fails.
"""
import ast
import os
import re
from .common import TranslateError, read_module, write_if_changed, coq_string, HEADER
from . import tr_handlers

FAMILIES = tr_handlers.FAMILIES
# decoders that are NOT expressible in the token language and have a hand model instead (Composite.v / Chunks.v / Learn.v)
HAND_MODELLED = {
    'PERF_Event', 'MACH_vmfault', 'DBG_DYLD_TIMING_LAUNCH_EXECUTABLE', 'TRACE_STRING_GLOBAL',
    'TRACE_STRING_NEWTHREAD', 'TRACE_STRING_EXEC', 'TRACE_STRING_PROC_EXIT', 'TRACE_STRING_THREADNAME',
    'TRACE_STRING_THREADNAME_PREV', 'TRACE_DATA_NEWTHREAD', 'TRACE_DATA_EXEC', 'TRACE_DATA_THREAD_TERMINATE',
    'TRACE_DATA_THREAD_TERMINATE_PID', 'PERF_THD_Data', 'PERF_STK_UData',
}
HOST_ENUMS = {'socket.AddressFamily': 'host:AddressFamily', 'socket.SocketKind': 'host:SocketKind',
              'Signals': 'host:Signals'}


class Unsupported(TranslateError):
    pass


def U(rule, msg, node=None):
    return Unsupported(rule, msg, node)


# --------------------------------------------------------------------------------------------------
# symbolic values
# --------------------------------------------------------------------------------------------------
class Num:                      # unsigned integer with a numeric source
    def __init__(self, src):
        self.src = src


class Signed:                   # ctypes.c_intNN(x).value
    def __init__(self, bits, src):
        self.bits, self.src = bits, src


class BoolV:                    # bool(x)
    def __init__(self, src):
        self.src = src


class EnumV:                    # E(x)
    def __init__(self, ename, val):
        self.ename, self.val = ename, val     # val: Num | Signed


class ListV:                    # list of enum members
    def __init__(self, lsrc):
        self.lsrc = lsrc


class StrV:
    def __init__(self, toks):
        self.toks = toks


class ConstV:
    def __init__(self, v):
        self.v = v


class ValsV:                    # events[k].values[lo:hi]
    def __init__(self, ev, lo=0, hi=4):
        self.ev, self.lo, self.hi = ev, lo, hi


class EventV:
    def __init__(self, ev):
        self.ev = ev


class EventsV:
    pass


class ParserV:
    pass


class VnodeV:
    def __init__(self, psrc):
        self.psrc = psrc


class VnodesV:
    pass


class ResultV:
    def __init__(self, name, fmt):
        self.name, self.fmt = name, fmt


class NoCancelV:
    pass


class TupleV:
    def __init__(self, items):
        self.items = items


class ObjV:
    def __init__(self, cls, fields):
        self.cls, self.fields = cls, fields


class MemberV:                  # E.MEMBER
    def __init__(self, ename, mname, value):
        self.ename, self.mname, self.value = ename, mname, value


class CondV:
    def __init__(self, cond):
        self.cond = cond


class NoneV:
    pass


class OptV:                     # value that may be None: (cond_is_some, value)
    def __init__(self, cond, value):
        self.cond, self.value = cond, value


class DictConstV:
    def __init__(self, items):
        self.items = items


class UuidV:
    def __init__(self, ev):
        self.ev = ev


class HostConstV:
    def __init__(self, name):
        self.name = name


def q(s):
    return coq_string(s)


def lit(s):
    return f'Lit {q(s)}' if s else None


def join_toks(toks):
    """merge adjacent literals"""
    out = []
    for t in toks:
        if t is None:
            continue
        if t.startswith('Lit "') and out and out[-1].startswith('Lit "'):
            out[-1] = out[-1][:-1] + t[5:]
        else:
            out.append(t)
    return out


def coq_toks(toks):
    return '[' + '; '.join(join_toks(toks)) + ']'


def coq_toks_raw(toks):
    return '[' + '; '.join(t for t in toks if t is not None) + ']'


# --------------------------------------------------------------------------------------------------
# per-module static information
# --------------------------------------------------------------------------------------------------
class Module:
    def __init__(self, fam):
        self.fam = fam
        self.rel = f'pykdebugparser/trace_handlers/{fam}.py'
        self.tree, _ = read_module(self.rel)
        self.funcs, self.classes, self.enums, self.consts, self.dicts = {}, {}, {}, {}, {}
        for st in self.tree.body:
            if isinstance(st, ast.FunctionDef):
                self.funcs[st.name] = st
            elif isinstance(st, ast.ClassDef):
                bases = [ast.unparse(b) for b in st.bases]
                if any(b.split('.')[-1] in ('Enum', 'Flag', 'IntFlag', 'IntEnum') for b in bases):
                    self.enums[st.name] = (self._enum_members(st), bases[0].split('.')[-1])
                else:
                    self.classes[st.name] = st
            elif isinstance(st, ast.Assign) and len(st.targets) == 1 and isinstance(st.targets[0], ast.Name):
                v = st.value
                if isinstance(v, ast.Constant) and isinstance(v.value, int) and not isinstance(v.value, bool):
                    self.consts[st.targets[0].id] = v.value
                elif isinstance(v, ast.Dict) and all(isinstance(k, ast.Constant) and isinstance(k.value, int) for k in v.keys) \
                        and all(isinstance(x, ast.Constant) and isinstance(x.value, str) for x in v.values):
                    self.dicts[st.targets[0].id] = [(k.value, x.value) for k, x in zip(v.keys, v.values)]

    def _enum_members(self, cls):
        out = []
        for b in cls.body:
            if isinstance(b, ast.Expr) and isinstance(b.value, ast.Constant):
                continue
            if isinstance(b, ast.Assign) and len(b.targets) == 1 and isinstance(b.targets[0], ast.Name):
                try:
                    val = ast.literal_eval(b.value)
                except Exception:
                    raise TranslateError('enum-value', f'{cls.name}.{b.targets[0].id} is not a literal', b, self.rel)
                if not isinstance(val, int) or isinstance(val, bool):
                    raise TranslateError('enum-value', f'{cls.name}.{b.targets[0].id} is not an int', b, self.rel)
                out.append((b.targets[0].id, val))
            elif isinstance(b, ast.Pass):
                continue
            else:
                raise TranslateError('enum-body', f'unexpected statement in enum {cls.name}', b, self.rel)
        return out


# --------------------------------------------------------------------------------------------------
# the symbolic interpreter
# --------------------------------------------------------------------------------------------------
class Interp:
    def __init__(self, mod, nocancel):
        self.m = mod
        self.nocancel = nocancel
        self.depth = 0

    # ---- numeric sources ----
    def num_src(self, v, node=None):
        if isinstance(v, Num):
            return v.src
        if isinstance(v, ConstV) and isinstance(v.v, int) and not isinstance(v.v, bool) and v.v >= 0:
            return f'(SConst {v.v})'
        raise U('numeric', f'not an unsigned numeric value: {type(v).__name__}', node)

    def const_int(self, v, node=None):
        if isinstance(v, ConstV) and isinstance(v.v, int) and not isinstance(v.v, bool):
            return v.v
        if isinstance(v, MemberV):
            return v.value
        raise U('const-int', 'constant integer expected', node)

    # ---- conditions ----
    def cond_of(self, v, node=None):
        """truthiness of a value as a Coq cond"""
        if isinstance(v, CondV):
            return v.cond
        if isinstance(v, Num):
            return f'(CNonZero {v.src})'
        if isinstance(v, ResultV):
            return f'(CResultNonEmpty {q(v.name)})'
        if isinstance(v, ListV):
            return f'(CListNonEmpty {v.lsrc})'
        if isinstance(v, VnodesV):
            return '(CPathsMore 0)'
        if isinstance(v, NoCancelV):
            return 'CNoCancel'
        if isinstance(v, ConstV):
            return 'CTrue' if v.v else 'CFalse'
        if isinstance(v, OptV):
            return v.cond
        if isinstance(v, StrV) and len(v.toks) == 1 and v.toks[0].startswith('TPath '):
            return f'(CPathNonEmpty {v.toks[0][6:]})'
        raise U('truthiness', f'truthiness of {type(v).__name__}', node)

    # ---- str() of a value ----
    def to_str(self, v, node=None):
        if isinstance(v, StrV):
            return list(v.toks)
        if isinstance(v, Num):
            return [f'TDec {v.src}']
        if isinstance(v, Signed):
            return [f'TSDec {v.bits} {v.src}']
        if isinstance(v, BoolV):
            return [f'TBool {v.src}']
        if isinstance(v, ConstV):
            if isinstance(v.v, (int, str)) and not isinstance(v.v, bool):
                return [lit(str(v.v))]
            if isinstance(v.v, bool):
                return [lit(str(v.v))]
        if isinstance(v, ResultV):
            return [f'TResult {q(v.name)} {v.fmt}']
        if isinstance(v, NoCancelV):
            raise U('str', 'str(no_cancel)', node)
        if isinstance(v, UuidV):
            return [f'TUuid {v.ev}']
        if isinstance(v, tuple) and v[0] == 'vnodeid':
            return [f'TVnodeId {v[1]}']
        raise U('str', f'str() of {type(v).__name__}', node)

    # ---- expressions ----
    def ev(self, node, env):
        m = self.m
        if isinstance(node, ast.Constant):
            if node.value is None:
                return NoneV()
            return ConstV(node.value)
        if isinstance(node, ast.Name):
            if node.id in env:
                return env[node.id]
            if node.id in m.consts:
                return ConstV(m.consts[node.id])
            if node.id in m.enums:
                return ('enumclass', node.id)
            if node.id in m.classes:
                return ('dataclass', node.id)
            if node.id in m.funcs:
                return ('func', node.id)
            if node.id in m.dicts:
                return DictConstV(m.dicts[node.id])
            if node.id in HOST_ENUMS:
                return ('hostenum', HOST_ENUMS[node.id])
            if node.id in ('hex', 'str', 'len', 'bool', 'chr', 'list', 'map', 'UUID'):
                return ('builtin', node.id)
            raise U('name', f'unknown name {node.id}', node)
        if isinstance(node, ast.Attribute):
            full = ast.unparse(node)
            if full in HOST_ENUMS:
                return ('hostenum', HOST_ENUMS[full])
            if full == 'socket.SOL_SOCKET':
                return HostConstV('SOL_SOCKET')
            if full == 'errno.errorcode':
                return ('errno-table',)
            base = self.ev(node.value, env)
            a = node.attr
            if isinstance(base, EventV):
                if a == 'values':
                    return ValsV(base.ev)
                if a == 'tid':
                    return Num(f'(STid {base.ev})')
                if a == 'data':
                    return ('data', base.ev)
                raise U('event-attr', f'event.{a}', node)
            if isinstance(base, ObjV):
                if a in base.fields:
                    return base.fields[a]
                raise U('field', f'object has no field {a}', node)
            if isinstance(base, EnumV) and a == 'name':
                if isinstance(base.val, Signed):
                    return StrV([f'TSEnumName {q(base.ename)} {base.val.bits} {base.val.src}'])
                return StrV([f'TEnumName {q(base.ename)} {base.val.src}'])
            if isinstance(base, EnumV) and a == 'value':
                return base.val
            if isinstance(base, VnodeV):
                if a == 'path':
                    return StrV([f'TPath {base.psrc}'])
                if a == 'vnode_id':
                    return ('vnodeid', base.psrc)
                if a == 'ktraces':
                    return ('vnode-ktraces', base.psrc)
            if isinstance(base, tuple) and base[0] == 'enumclass':
                members = dict(m.enums[base[1]][0])
                if a in members:
                    return MemberV(base[1], a, members[a])
                if a == '__members__':
                    return ('enum-members', base[1])
            if isinstance(base, Signed) and a == 'value':
                return base
            if isinstance(base, ParserV):
                return ('parser-attr', a)
            if isinstance(base, OptV):
                inner = self.ev(ast.Attribute(value=ast.Name(id='__opt__', ctx=ast.Load()), attr=a, ctx=ast.Load()),
                                dict(env, __opt__=base.value))
                return inner
            raise U('attribute', f'{type(base).__name__}.{a}', node)
        if isinstance(node, ast.Subscript):
            base = self.ev(node.value, env)
            if isinstance(base, EventsV):
                idx = node.slice
                if isinstance(idx, ast.Constant) and idx.value == 0:
                    return EventV('EFirst')
                if isinstance(idx, ast.UnaryOp) and isinstance(idx.op, ast.USub) and ast.unparse(idx.operand) == '1':
                    return EventV('ELast')
                raise U('events-index', ast.unparse(node), node)
            if isinstance(base, ValsV):
                if isinstance(node.slice, ast.Slice):
                    lo = 0 if node.slice.lower is None else self.const_int(self.ev(node.slice.lower, env))
                    hi = 4 if node.slice.upper is None else self.const_int(self.ev(node.slice.upper, env))
                    return ValsV(base.ev, base.lo + lo, min(base.hi, base.lo + hi))
                i = self.const_int(self.ev(node.slice, env), node)
                if not 0 <= base.lo + i < base.hi:
                    raise U('values-index', f'index {i} outside the 4 words', node)
                return Num(f'(W {base.ev} {base.lo + i})')
            if isinstance(base, VnodesV):
                s = ast.unparse(node.slice)
                if s == '-1':
                    return VnodeV('PLast')
                return VnodeV(f'(PNth {int(s)})')
            if isinstance(base, tuple) and base[0] == 'data':
                if ast.unparse(node.slice) == ':16':
                    return ('data16', base[1])
            if base == ('errno-table',):
                k = self.ev(node.slice, env)
                return StrV([f'TErrnoName {self.num_src(k, node)}'])
            raise U('subscript', ast.unparse(node), node)
        if isinstance(node, ast.BinOp):
            a, b = self.ev(node.left, env), self.ev(node.right, env)
            if isinstance(node.op, ast.Add) and (isinstance(a, StrV) or isinstance(b, StrV)
                                                 or (isinstance(a, ConstV) and isinstance(a.v, str))):
                return StrV(self.to_str_concat(a, node) + self.to_str_concat(b, node))
            if isinstance(a, ConstV) and isinstance(b, ConstV):
                return ConstV(eval(compile(ast.Expression(ast.BinOp(ast.Constant(a.v), node.op, ast.Constant(b.v))),
                                           '<c>', 'eval')))
            if isinstance(node.op, ast.BitAnd):
                if isinstance(a, (Num,)) and isinstance(b, (ConstV, MemberV)):
                    return Num(f'(SAnd {a.src} {self.const_int(b, node)})')
                if isinstance(b, Num) and isinstance(a, (ConstV, MemberV)):
                    return Num(f'(SAnd {b.src} {self.const_int(a, node)})')
            if isinstance(node.op, ast.RShift) and isinstance(a, Num) and isinstance(b, ConstV):
                return Num(f'(SShr {a.src} {self.const_int(b, node)})')
            raise U('binop', ast.unparse(node), node)
        if isinstance(node, ast.IfExp):
            c = self.cond_of(self.ev(node.test, env), node.test)
            return self.merge(c, self.ev(node.body, env), self.ev(node.orelse, env), node)
        if isinstance(node, ast.Compare) and len(node.ops) == 1:
            a, b = self.ev(node.left, env), self.ev(node.comparators[0], env)
            op = node.ops[0]
            if isinstance(op, ast.In) and isinstance(a, Num) and b == ('errno-table',):
                return CondV(f'(CErrnoKnown {a.src})')
            if isinstance(op, ast.GtE) and isinstance(a, tuple) and a[0] == 'len-paths' and isinstance(b, ConstV) and b.v >= 1:
                return CondV(f'(CPathsMore {b.v - 1})')
            if isinstance(op, ast.In) and isinstance(a, MemberV) and isinstance(b, ListV):
                return CondV(f'(CMember {q(a.ename)} {q(a.mname)} {b.lsrc})')
            if isinstance(op, ast.Eq) and isinstance(a, Num) and isinstance(b, HostConstV):
                return CondV(f'(CEqHost {a.src} {q(b.name)})')
            if isinstance(op, ast.Eq) and isinstance(a, Num) and isinstance(b, (ConstV, MemberV)):
                return CondV(f'(CEq {a.src} {self.const_int(b, node)})')
            if isinstance(op, ast.Gt) and isinstance(a, tuple) and a[0] == 'len-paths' and isinstance(b, ConstV):
                return CondV(f'(CPathsMore {b.v})')
            if isinstance(op, (ast.IsNot, ast.Is)) and isinstance(b, NoneV):
                if isinstance(a, OptV):
                    return CondV(a.cond if isinstance(op, ast.IsNot) else f'(CNot {a.cond})')
                if isinstance(a, NoneV):
                    return CondV('CFalse' if isinstance(op, ast.IsNot) else 'CTrue')
                return CondV('CTrue' if isinstance(op, ast.IsNot) else 'CFalse')
            raise U('compare', ast.unparse(node), node)
        if isinstance(node, ast.BoolOp) and isinstance(node.op, ast.And):
            cs = [self.cond_of(self.ev(v, env), v) for v in node.values]
            out = cs[0]
            for c in cs[1:]:
                out = f'(CAnd {out} {c})'
            return CondV(out)
        if isinstance(node, ast.JoinedStr):
            toks = []
            for piece in node.values:
                if isinstance(piece, ast.Constant):
                    toks.append(lit(piece.value))
                else:
                    if piece.conversion != -1 or piece.format_spec is not None:
                        raise U('fstring-format', ast.unparse(piece), piece)
                    toks += self.to_str(self.ev(piece.value, env), piece)
            return StrV(toks)
        if isinstance(node, ast.Tuple):
            return TupleV([self.ev(e, env) for e in node.elts])
        if isinstance(node, ast.ListComp):
            return self.listcomp(node, env)
        if isinstance(node, ast.List) and not node.elts:
            return ListV('LNil')
        if isinstance(node, ast.Call):
            return self.call(node, env)
        raise U('expr', type(node).__name__ + ': ' + ast.unparse(node)[:60], node)

    def to_str_concat(self, v, node):
        if isinstance(v, ConstV) and isinstance(v.v, str):
            return [lit(v.v)]
        if isinstance(v, StrV):
            return list(v.toks)
        raise U('concat', f'string concatenation with {type(v).__name__}', node)

    def merge(self, c, a, b, node=None):
        """value of `a if c else b`"""
        if isinstance(a, NoneV) and isinstance(b, NoneV):
            return NoneV()
        if isinstance(b, NoneV):
            return OptV(c, a)
        if isinstance(a, NoneV):
            return OptV(f'(CNot {c})', b)
        if isinstance(a, StrV) or isinstance(b, StrV) or (isinstance(a, ConstV) and isinstance(a.v, str)):
            ta, tb = join_toks(self.to_str(a, node)), join_toks(self.to_str(b, node))
            # `rep += X` under a condition: keep the common prefix outside the conditional
            k = 0
            while k < len(ta) and k < len(tb) and ta[k] == tb[k]:
                k += 1
            if k and k == len(tb):
                return StrV(tb + [f'TIf {c} {coq_toks(ta[k:])} []'])
            if tb and k == len(tb) - 1 and k < len(ta) and tb[k].startswith('Lit "') and ta[k].startswith(tb[k][:-1]) \
                    and ta[k] != tb[k]:
                # the old text ends in a literal that the new text extends
                rest = 'Lit "' + ta[k][len(tb[k]) - 1:]
                return StrV(tb + [f'TIf {c} {coq_toks([rest] + ta[k + 1:])} []'])
            return StrV([f'TIf {c} {coq_toks(ta)} {coq_toks(tb)}'])
        if isinstance(a, ListV) and isinstance(b, ListV):
            mm = re.fullmatch(r'\(CMember ("[^"]*") ("[^"]*") (.*)\)', c)
            if not mm:
                raise U('list-ifexp', 'conditional list whose condition is not a membership test', node)
            return ListV(f'(LIfMember {mm.group(1)} {mm.group(2)} {mm.group(3)} {a.lsrc} {b.lsrc})')
        if isinstance(a, TupleV) and isinstance(b, TupleV) and len(a.items) == len(b.items):
            return TupleV([self.merge(c, x, y, node) for x, y in zip(a.items, b.items)])
        if isinstance(a, Num) and isinstance(b, (Num, ConstV)):
            return StrV([f'TIf {c} {coq_toks(self.to_str(a))} {coq_toks(self.to_str(b))}'])
        raise U('ifexp', f'{type(a).__name__} if .. else {type(b).__name__}', node)

    def listcomp(self, node, env):
        # [m for m in E if m.value & X]   /  [m for m in list(E) if X & m.value]
        if len(node.generators) == 1 and len(node.generators[0].ifs) == 1 and isinstance(node.elt, ast.Name):
            g = node.generators[0]
            var = node.elt.id
            it = g.iter
            if isinstance(it, ast.Call) and ast.unparse(it.func) == 'list' and len(it.args) == 1:
                it = it.args[0]
            if isinstance(g.target, ast.Name) and g.target.id == var and isinstance(it, ast.Name) and it.id in self.m.enums:
                test = g.ifs[0]
                if isinstance(test, ast.BinOp) and isinstance(test.op, ast.BitAnd):
                    sides = [test.left, test.right]
                    mv = [s for s in sides if ast.unparse(s) == f'{var}.value']
                    other = [s for s in sides if ast.unparse(s) != f'{var}.value']
                    if len(mv) == 1 and len(other) == 1:
                        x = self.ev(other[0], env)
                        return ListV(f'(LAnyBit {q(it.id)} {self.num_src(x, node)})')
        # [e for e in events if all(e is not k for k in X.ktraces)]  (the records other than those of the first lookup, by
        # identity: the form `e not in X.ktraces` compares records by value and drops a record of the second lookup that equals
        # one of the first -- same tick, same last chunk -- so it is NOT the second lookup and is rejected here)
        if re.fullmatch(r'\[e for e in events if all\(\(?e is not k for k in \w+\.ktraces\)?\)\]', ast.unparse(node)):
            return ('events-minus-first-vnode',)
        raise U('listcomp', ast.unparse(node)[:80], node)

    def call(self, node, env):
        m = self.m
        fs = ast.unparse(node.func)
        # ---- method-call idioms matched textually ----
        if fs == 'parser.parse_vnode' and len(node.args) == 1:
            a = self.ev(node.args[0], env) if not isinstance(node.args[0], ast.ListComp) else self.listcomp(node.args[0], env)
            if isinstance(a, EventsV):
                return VnodeV('PFirst')
            if a == ('events-minus-first-vnode',):
                return VnodeV('PSecond')
            raise U('parse_vnode', ast.unparse(node), node)
        if fs == 'parser.parse_vnodes' and len(node.args) == 1 and isinstance(self.ev(node.args[0], env), EventsV):
            return VnodesV()
        if fs == 'parser.global_strings.get' and len(node.args) == 2 and ast.unparse(node.args[1]) == "''":
            return StrV([f'TGStr {self.num_src(self.ev(node.args[0], env), node)}'])
        if fs in ('ctypes.c_int64', 'ctypes.c_int32'):
            return Signed(int(fs[-2:]), self.num_src(self.ev(node.args[0], env), node))
        if fs == 'serialize_result':
            return self.serialize_result(node, env)
        if isinstance(node.func, ast.Attribute) and node.func.attr == 'join' and isinstance(node.func.value, ast.Constant):
            sep = node.func.value.value
            arg = node.args[0]
            if isinstance(arg, ast.Call) and ast.unparse(arg.func) == 'map' and len(arg.args) == 2:
                f, xs = arg.args
                lv = self.ev(xs, env)
                if isinstance(f, ast.Lambda) and ast.unparse(f.body) == f'{f.args.args[0].arg}.name' and isinstance(lv, ListV):
                    return StrV([f'TNames {lv.lsrc} {q(sep)}'])
            raise U('join', ast.unparse(node)[:80], node)
        if isinstance(node.func, ast.Attribute) and node.func.attr == 'get' and len(node.args) == 2:
            d = self.ev(node.func.value, env)
            if isinstance(d, DictConstV):
                k = self.ev(node.args[0], env)
                dflt = self.ev(node.args[1], env)
                tbl = '[' + '; '.join(f'({kk}, {q(vv)})' for kk, vv in d.items) + ']'
                ks = self.num_src(k, node)
                if coq_toks(self.to_str(dflt, node)) != f'[THex {ks}]':
                    raise U('dict-get', 'default is not hex(key)', node)
                return StrV([f'TDictGetHex {tbl} {ks}'])
        if isinstance(node.func, ast.Attribute) and node.func.attr == 'lower' and not node.args:
            inner = node.func.value
            if isinstance(inner, ast.Call) and ast.unparse(inner.func) == 'str':
                v = self.ev(inner.args[0], env)
                if isinstance(v, BoolV):
                    return StrV([f'TBoolLower {v.src}'])
        f = self.ev(node.func, env)
        args = []
        for a in node.args:
            if isinstance(a, ast.Starred):
                v = self.ev(a.value, env)
                if not isinstance(v, ValsV):
                    raise U('starred', ast.unparse(a), a)
                args += [Num(f'(W {v.ev} {i})') for i in range(v.lo, v.hi)]
            else:
                args.append(self.ev(a, env))
        kwargs = {k.arg: self.ev(k.value, env) for k in node.keywords}
        if isinstance(f, tuple) and f[0] == 'dataclass':
            return self.construct(f[1], args, kwargs, node)
        if isinstance(f, tuple) and f[0] == 'enumclass' and len(args) == 1:
            if isinstance(args[0], (Num, Signed)):
                return EnumV(f[1], args[0])
            raise U('enum-conv', ast.unparse(node), node)
        if isinstance(f, tuple) and f[0] == 'hostenum' and len(args) == 1 and isinstance(args[0], Num):
            return EnumV(f[1], args[0])
        if isinstance(f, tuple) and f[0] == 'builtin':
            b = f[1]
            if b == 'hex' and len(args) == 1:
                if isinstance(args[0], Num):
                    return StrV([f'THex {args[0].src}'])
                if isinstance(args[0], Signed):
                    return StrV([f'TSHex {args[0].bits} {args[0].src}'])
                if isinstance(args[0], ConstV):
                    return StrV([lit(hex(args[0].v))])
            if b == 'str' and len(args) == 1:
                return StrV(self.to_str(args[0], node))
            if b == 'bool' and len(args) == 1 and isinstance(args[0], Num):
                return BoolV(args[0].src)
            if b == 'chr' and len(args) == 1 and isinstance(args[0], Num):
                return StrV([f'TChr {args[0].src}'])
            if b == 'len' and len(args) == 1 and isinstance(args[0], VnodesV):
                return ('len-paths',)
            if b == 'UUID' and not args and set(kwargs) == {'bytes'} and isinstance(kwargs['bytes'], tuple) \
                    and kwargs['bytes'][0] == 'data16':
                return UuidV(kwargs['bytes'][1])
            raise U('builtin', ast.unparse(node)[:60], node)
        if isinstance(f, tuple) and f[0] == 'func':
            return self.inline(f[1], args, kwargs, node)
        raise U('call', ast.unparse(node)[:80], node)

    def serialize_result(self, node, env):
        if not node.args or not isinstance(self.ev(node.args[0], env), EventV) or self.ev(node.args[0], env).ev != 'ELast':
            raise U('serialize_result', 'first argument is not events[-1]', node)
        name, fmt = '', 'RDec'
        rest = list(node.args[1:])
        kw = {k.arg: k.value for k in node.keywords}
        if rest:
            name = rest.pop(0)
        elif 'success_name' in kw:
            name = kw['success_name']
        if rest:
            fmtn = rest.pop(0)
        else:
            fmtn = kw.get('fmt')
        if name != '':
            c = self.ev(name, env)
            if not (isinstance(c, ConstV) and isinstance(c.v, str)):
                raise U('serialize_result', 'success name is not a string literal', node)
            name = c.v
        if fmtn is not None:
            s = ast.unparse(fmtn)
            if s == 'hex':
                fmt = 'RHex'
            elif s == 'lambda x: ctypes.c_int64(x).value':
                fmt = 'RS64'
            elif s == 'lambda x: ctypes.c_int32(x).value':
                fmt = 'RS32'
            elif s == 'bool':
                fmt = 'RBool'
            else:
                raise U('serialize_result', f'unsupported fmt {s}', node)
        self.check_serialize_result()
        return ResultV(name, fmt)

    _sr_checked = {}

    def check_serialize_result(self):
        """the body of serialize_result must be the one the RESULT token is defined by (DecoderDSL.render_result)"""
        key = self.m.fam
        if key in Interp._sr_checked:
            return
        want = ("def serialize_result(end_event, success_name='', fmt=lambda x: x) -> str:\n"
                "    error_code = end_event.values[0]\n    res = end_event.values[1]\n"
                "    if error_code in errno.errorcode:\n"
                "        err = f'errno: {errno.errorcode[error_code]}({error_code})'\n    else:\n"
                "        err = f'errno: {error_code}'\n"
                "    success = f'{success_name}: {fmt(res)}' if success_name else ''\n"
                "    return success if not error_code else err")
        got = ast.unparse(self.m.funcs['serialize_result'])
        if got != want:
            raise TranslateError('serialize_result-body', 'serialize_result changed; the RESULT token no longer describes it')
        Interp._sr_checked[key] = True

    def construct(self, cls, args, kwargs, node):
        c = self.m.classes[cls]
        names = [st.target.id for st in c.body if isinstance(st, ast.AnnAssign)]
        defaults = {st.target.id: st.value for st in c.body if isinstance(st, ast.AnnAssign) and st.value is not None}
        fields = {}
        if len(args) > len(names):
            raise U('construct', f'too many arguments for {cls}', node)
        for n, a in zip(names, args):
            fields[n] = a
        for k, v in kwargs.items():
            if k not in names:
                raise U('construct', f'{cls} has no field {k}', node)
            fields[k] = v
        for n in names:
            if n not in fields:
                if n not in defaults:
                    raise U('construct', f'{cls}: missing field {n}', node)
                fields[n] = self.ev(defaults[n], {})
        return ObjV(cls, fields)

    def inline(self, fname, args, kwargs, node):
        fn = self.m.funcs[fname]
        self.depth += 1
        if self.depth > 4:
            raise U('inline', 'recursion too deep', node)
        try:
            params = [a.arg for a in fn.args.args]
            env = dict(zip(params, args))
            env.update(kwargs)
            r = self.block(fn.body, env)
        finally:
            self.depth -= 1
        if r is None:
            raise U('inline', f'{fname} does not return', node)
        return r

    # ---- statements: returns the value returned by the block, or None ----
    def block(self, stmts, env):
        for i, st in enumerate(stmts):
            if isinstance(st, ast.Expr) and isinstance(st.value, ast.Constant):
                continue
            if isinstance(st, ast.Return):
                return self.ev(st.value, env)
            if isinstance(st, ast.Assign) and len(st.targets) == 1:
                v = self.ev(st.value, env)
                self.assign(st.targets[0], v, env, st)
                continue
            if isinstance(st, ast.AugAssign) and isinstance(st.op, ast.Add) and isinstance(st.target, ast.Name):
                old = env[st.target.id]
                v = self.ev(st.value, env)
                env[st.target.id] = StrV(self.to_str_concat(old, st) + self.to_str_concat(v, st))
                continue
            if isinstance(st, ast.If):
                c = self.cond_of(self.ev(st.test, env), st.test)
                e1, e2 = dict(env), dict(env)
                r1 = self.block(st.body, e1)
                r2 = self.block(st.orelse, e2) if st.orelse else None
                if r1 is not None or r2 is not None:
                    # if c: return a  [else: return b | fallthrough to the rest]
                    rest = self.block(stmts[i + 1:], e2) if r2 is None else r2
                    if r1 is None:
                        r1 = self.block(stmts[i + 1:], e1)
                    if r1 is None or rest is None:
                        raise U('if-return', 'a branch does not return', st)
                    return self.merge(c, r1, rest, st)
                for k in set(e1) | set(e2):
                    a, b = e1.get(k), e2.get(k)
                    if a is b:
                        continue
                    if a is None or b is None:
                        raise U('if-merge', f'{k} defined in one branch only', st)
                    env[k] = self.merge(c, a, b, st)
                continue
            if isinstance(st, ast.Try):
                self.try_stmt(st, env)
                continue
            if isinstance(st, ast.For):
                v = self.for_stmt(st, env)
                continue
            raise U('statement', type(st).__name__, st)
        return None

    def assign(self, target, v, env, st):
        if isinstance(target, ast.Name):
            env[target.id] = v
        elif isinstance(target, ast.Tuple) and isinstance(v, TupleV) and len(target.elts) == len(v.items):
            for t, x in zip(target.elts, v.items):
                self.assign(t, x, env, st)
        elif isinstance(target, ast.Attribute) or isinstance(target, ast.Subscript):
            raise U('assign-target', 'table write: ' + ast.unparse(target), st)
        else:
            raise U('assign-target', ast.unparse(target), st)

    def try_stmt(self, st, env):
        # try: x = E(x).name   except ValueError: pass
        if len(st.body) == 1 and isinstance(st.body[0], ast.Assign) and len(st.handlers) == 1 \
                and ast.unparse(st.handlers[0].type) == 'ValueError' and len(st.handlers[0].body) == 1 \
                and isinstance(st.handlers[0].body[0], ast.Pass) and not st.orelse and not st.finalbody:
            a = st.body[0]
            if isinstance(a.targets[0], ast.Name) and isinstance(a.value, ast.Attribute) and a.value.attr == 'name':
                call = a.value.value
                if isinstance(call, ast.Call) and len(call.args) == 1:
                    f = self.ev(call.func, env)
                    x = self.ev(call.args[0], env)
                    old = env.get(a.targets[0].id)
                    if isinstance(f, tuple) and f[0] == 'enumclass' and isinstance(x, Num) and old is not None:
                        if coq_toks(self.to_str(old, st)) != f'[TDec {x.src}]':
                            raise U('try', 'fallback is not the number itself', st)
                        env[a.targets[0].id] = StrV([f'TEnumNameOrDec {q(f[1])} {x.src}'])
                        return
        raise U('try', 'unsupported try statement', st)

    def for_stmt(self, st, env):
        raise U('for', 'loops are not in the token language', st)


# --------------------------------------------------------------------------------------------------
# list serializers (helper functions returning lists of enum members), recognised by shape
# --------------------------------------------------------------------------------------------------
def serializer_lsrc(mod, fname, arg_src):
    fn = mod.funcs[fname]
    body = [st for st in fn.body if not (isinstance(st, ast.Expr) and isinstance(st.value, ast.Constant))]
    p = fn.args.args[0].arg
    src = ast.unparse(fn)

    def anybit(comp):
        s = ast.unparse(comp)
        for e in mod.enums:
            for v in ('flag', 'r', 's', 'p', 'c', 'm', 'x'):
                if s == f'[{v} for {v} in {e} if {v}.value & {p}]':
                    return e
        return None
    if len(body) == 1 and isinstance(body[0], ast.Return):
        e = anybit(body[0].value)
        if e:
            return f'(LAnyBit {q(e)} {arg_src})'
    if len(body) == 1 and isinstance(body[0], ast.If) and ast.unparse(body[0].test) == f'not {p}' \
            and len(body[0].body) == 1 and len(body[0].orelse) == 1:
        r1, r2 = body[0].body[0], body[0].orelse[0]
        if isinstance(r1, ast.Return) and isinstance(r2, ast.Return) and isinstance(r1.value, ast.List) and len(r1.value.elts) == 1:
            e = anybit(r2.value)
            d = ast.unparse(r1.value.elts[0])
            if e and d.startswith(e + '.'):
                return f'(LAnyBitOrIfZero {q(e)} {q(d.split(".")[1])} {arg_src})'
    if fname == 'serialize_access_flags':
        want = ('def serialize_access_flags(flags: int) -> List[BscAccessFlags]:\n'
                '    amode = [flag for flag in BscAccessFlags if flag.value & flags]\n'
                '    if not amode:\n        amode = [BscAccessFlags.F_OK]\n    return amode')
        if src == want:
            return f'(LAnyBitOrIfEmpty "BscAccessFlags" "F_OK" {arg_src})'
    if fname == 'serialize_open_flags':
        acc, rest, dflt = open_flags_params(mod)
        return (f'(LOpenFlags [{"; ".join(q(x) for x in acc)}] {q(dflt)} [{"; ".join(q(x) for x in rest)}] {arg_src})')
    if fname == 'serialize_stat_flags':
        want = ('def serialize_stat_flags(flags: int) -> List[StatFlags]:\n    stat_flags = []\n'
                '    for flag in StatFlags.__members__.values():\n        if flag.value & S_IFMT:\n'
                '            if flags & S_IFMT == flag.value:\n                stat_flags.append(flag)\n'
                '        elif flag.value & flags:\n            stat_flags.append(flag)\n    return stat_flags')
        if src == want:
            return f'(LStatFlags {mod.consts["S_IFMT"]} {arg_src})'
    raise U('serializer', f'unrecognised list serializer {fname}', fn)


def open_flags_params(mod):
    fn = mod.funcs['serialize_open_flags']
    src = ast.unparse(fn)
    fors = [st for st in fn.body if isinstance(st, ast.For)]
    if len(fors) != 2:
        raise U('serializer', 'serialize_open_flags: two loops expected', fn)

    def members(t):
        if not isinstance(t, ast.Tuple):
            raise U('serializer', 'serialize_open_flags: tuple expected', t)
        out = []
        for e in t.elts:
            s = ast.unparse(e)
            if not s.startswith('BscOpenFlags.'):
                raise U('serializer', 'serialize_open_flags: member expected', e)
            out.append(s.split('.')[1])
        return out
    acc = members(fors[0].iter)
    rest = members(fors[1].iter)
    skeleton = src
    for name in acc + rest:
        skeleton = skeleton.replace('BscOpenFlags.' + name, 'M')
    want = ("def serialize_open_flags(flags: int) -> List[BscOpenFlags]:\n    call_flags = []\n"
            "    for flag in (" + ', '.join(['M'] * len(acc)) + "):\n        if flags & flag.value:\n"
            "            call_flags.append(flag)\n            break\n    else:\n        call_flags.append(BscOpenFlags.O_RDONLY)\n"
            "    for flag in (" + ', '.join(['M'] * len(rest)) + "):\n        if flags & flag.value:\n"
            "            call_flags.append(flag)\n    return call_flags")
    if skeleton != want:
        raise U('serializer', 'serialize_open_flags body changed')
    return acc, rest, 'O_RDONLY'


# patch the interpreter so that calls to list serializers do not inline
_orig_inline = Interp.inline


def _inline(self, fname, args, kwargs, node):
    fn = self.m.funcs[fname]
    ret = ast.unparse(fn.returns) if fn.returns is not None else ''
    is_list_ser = fname.startswith(('serialize_', 'to_')) and fname != 'serialize_result' and len(fn.args.args) == 1
    if is_list_ser and len(args) == 1 and isinstance(args[0], (Num, ConstV)):
        return ListV(serializer_lsrc(self.m, fname, self.num_src(args[0], node)))
    return _orig_inline(self, fname, args, kwargs, node)


Interp.inline = _inline


# --------------------------------------------------------------------------------------------------
# rows
# --------------------------------------------------------------------------------------------------
def translate_row(mod, key, fname, nocancel, bound):
    it = Interp(mod, nocancel)
    fn = mod.funcs[fname]
    params = [a.arg for a in fn.args.args]
    env = {}
    if bound:
        if params[0] != 'addr_type':
            raise U('bound-arg', 'unexpected bound positional parameter', fn)
        env['addr_type'] = ('dataclass', bound)
        params = params[1:]
    if params[:2] != ['parser', 'events']:
        raise U('handler-signature', f'{fname}{params}', fn)
    env['parser'] = ParserV()
    env['events'] = EventsV()
    for extra in params[2:]:
        if extra != 'no_cancel':
            raise U('handler-signature', f'unexpected parameter {extra}', fn)
        env['no_cancel'] = NoCancelV()
    obj = it.block(fn.body, env)
    if not isinstance(obj, ObjV):
        raise U('handler-return', 'handler does not return a dataclass object', fn)
    cls = mod.classes[obj.cls]
    strfn = next((st for st in cls.body if isinstance(st, ast.FunctionDef) and st.name == '__str__'), None)
    if strfn is None:
        raise U('no-str', f'{obj.cls} has no __str__', cls)
    r = it.block(strfn.body, {'self': obj})
    if not isinstance(r, (StrV, ConstV)):
        raise U('str-return', '__str__ does not return text', strfn)
    toks = it.to_str_concat(r, strfn) if isinstance(r, ConstV) else r.toks
    # the no_cancel field: bound True for the _nocancel twin, default False otherwise
    return join_toks(toks), obj.cls


def split_call(toks):
    """tokens of `name(p0, p1, ...)tail` -> (name, [params], tail) with the literals cut at the top-level '(' ', ' ')';
    None when the text has no such shape"""
    name, params, cur, tail = [], [], [], []
    state, depth = 'name', 0

    def emit(dst, text):
        if text:
            dst.append('Lit ' + q(text))
    for t in toks:
        if t.startswith('Lit "') and state != 'tail':
            text = t[5:-1].replace('""', '"')
            buf, i = '', 0
            while i < len(text):
                ch = text[i]
                if state == 'name':
                    if ch == '(':
                        emit(name, buf)
                        buf, state, depth = '', 'params', 0
                    else:
                        buf += ch
                elif state == 'params':
                    if ch == '(':
                        depth += 1
                        buf += ch
                    elif ch == ')' and depth > 0:
                        depth -= 1
                        buf += ch
                    elif ch == ')':
                        emit(cur, buf)
                        buf = ''
                        params.append(cur)
                        cur, state = [], 'tail'
                    elif ch == ',' and depth == 0 and text[i:i + 2] == ', ':
                        emit(cur, buf)
                        buf = ''
                        params.append(cur)
                        cur = []
                        i += 1
                    else:
                        buf += ch
                else:
                    buf += ch
                i += 1
            emit(name if state == 'name' else cur if state == 'params' else tail, buf)
        else:
            (name if state == 'name' else cur if state == 'params' else tail).append(t)
    if state != 'tail':
        return None
    if params == [[]]:
        params = []
    return name, params, tail


def assemble(name, params, tail):
    out = list(name) + ['Lit "("']
    for i, p in enumerate(params):
        if i:
            out.append('Lit ", "')
        out += p
    return out + ['Lit ")"'] + list(tail)


def all_enums():
    out = {}
    for fam in FAMILIES:
        mod = Module(fam)
        for name, (members, kind) in mod.enums.items():
            if name in out and out[name] != (members, kind):
                raise TranslateError('enum-clash', f'enum {name} defined differently in two modules')
            out[name] = (members, kind)
    return out


def translate():
    rows, _ = tr_handlers.all_rows()
    mods = {fam: Module(fam) for fam in FAMILIES}
    out_rows, untranslated = [], []
    for fam, key, fname, nc, bound in rows:
        try:
            toks, cls = translate_row(mods[fam], key, fname, nc, bound)
            out_rows.append((fam, key, fname, nc, cls, toks))
        except Unsupported as e:
            untranslated.append((fam, key, fname, e.rule, str(e)))
    bad = [u for u in untranslated if u[1] not in HAND_MODELLED]
    if bad:
        raise TranslateError('decoder-row', f'{len(bad)} decoders outside the token language, first: {bad[0]}')
    enums = all_enums()
    # ---- GenEnums.v ----
    e = [HEADER.format(tool='tools/translate/tr_decoders.py', src='pykdebugparser/trace_handlers/*.py'),
         'From Coq Require Import String ZArith List.', 'Import ListNotations.', 'Open Scope string_scope.', '',
         '(* every enum class of the decoder modules: (class, kind, members in definition order) *)',
         'Definition gen_enums : list (string * string * list (string * Z)) := [']
    e.append(';\n'.join(f'  ({q(n)}, {q(kind)}, [' + '; '.join(f'({q(mn)}, ({mv})%Z)' for mn, mv in members) + '])'
                        for n, (members, kind) in sorted(enums.items())))
    e.append('].')
    write_if_changed('GenEnums.v', '\n'.join(e) + '\n')
    # ---- GenDecoders.v ----
    d = [HEADER.format(tool='tools/translate/tr_decoders.py', src='pykdebugparser/trace_handlers/*.py'),
         'From Coq Require Import String NArith List.', 'From Kd Require Import theories.DecoderDSL.',
         'Import ListNotations.', 'Open Scope string_scope.', 'Open Scope N_scope.', '',
         '(* (family, registered name, handler function, bound no_cancel, tokens of str(decoded trace)) *)',
         'Definition gen_rows : list drow := [']
    calls = {}
    for fam, key, fn, nc, cls, toks in out_rows:
        if key.startswith(('BSC_', 'MSC_')):
            sp = split_call(toks)
            if sp is None:
                raise TranslateError('call-shape', f'{key} is not rendered as name(p0, p1, ...)')
            if join_toks(assemble(*sp)) != join_toks(toks):
                raise TranslateError('call-shape', f'{key}: call structure does not reassemble to the rendering')
            calls[key] = sp
    d = d[:-1]
    d.append('(* syscalls and traps are rendered as name(p0, p1, ...)tail : the three parts, cut at the top-level parentheses *)')
    for key, (nm, ps, tl) in calls.items():
        d.append(f'Definition call_{key} : dcall := ({coq_toks_raw(nm)}, [' + '; '.join(coq_toks_raw(p) for p in ps)
                 + f'], {coq_toks_raw(tl)}).')
    d.append('Definition gen_rows : list drow := [')
    d.append(';\n'.join(
        f'  mkRow {q(fam)} {q(key)} {q(fn)} {"true" if nc else "false"} '
        + (f'(assemble call_{key})' if key in calls else coq_toks(toks))
        for fam, key, fn, nc, cls, toks in out_rows))
    d.append('].')
    d.append('Definition gen_calls : list (string * dcall) := [' + '; '.join(f'({q(k)}, call_{k})' for k in calls) + '].')
    d.append('Definition gen_hand_modelled : list string := [' + '; '.join(q(u[1]) for u in untranslated) + '].')
    write_if_changed('GenDecoders.v', '\n'.join(d) + '\n')
    return out_rows, untranslated, enums


if __name__ == '__main__':
    import collections
    rows, _ = tr_handlers.all_rows()
    mods = {fam: Module(fam) for fam in FAMILIES}
    ok, bad = 0, collections.Counter()
    ex = {}
    for fam, key, fname, nc, bound in rows:
        try:
            translate_row(mods[fam], key, fname, nc, bound)
            ok += 1
        except Unsupported as e:
            bad[e.rule] += 1
            ex.setdefault(e.rule, []).append((key, str(e)[:110]))
    print('translated', ok, 'of', len(rows))
    for r, c in bad.most_common():
        print(c, r, ex[r][:3])

"""pykdebugparser/kd_buf_parser.py -> coq/gen/GenContainer.v : every byte constant of the container format (dump magics, section
and block tags), the layouts of the construct Structs (thread-map entry, version-2 header up to the thread map, version-3
header up to its plist) as lists of field sizes, the literal numbers of parse_v3 (bytes skipped after the header, the unknown
word of a chunk, the seek back), and - by exact text - seek_until, parse, set_thread_map, parse_v2, parse_v3.
theories/ContainerRefine.v proves the constants and layouts equal to the ones the hand model Container.v / V3Meta.v is
written with.  Fail-closed."""
import ast
from .common import TranslateError, read_module, write_if_changed, HEADER

REL = 'pykdebugparser/kd_buf_parser.py'
SIZES = {'Int32ul': 4, 'Int64ul': 8, 'Int16ul': 2, 'Byte': 1, 'Int8ul': 1}
CONSTS = ['RAW_VERSION2_BYTES', 'RAW_VERSION3_BYTES', 'TRACEV3_STACKSHOT_END', 'TRACEV3_THREADMAP_TAG', 'TRACEV3_EVENTS_TAG',
          'TRACEV3_MORE_EVENTS', 'TRACEV3_DYLD_MODULES', 'TRACEV3_TRACE_CODES', 'TRACEV3_PROCESSES', 'TRACEV3_LOG_EVENTS',
          'TRACEV3_LOG_STRINGS', 'TRACEV3_KERNEL_EXTENSIONS', 'TRACEV3_IMAGES']

SEEK_UNTIL = ("found = reader.read(len(data))\nwhile found != data:\n    next_byte = reader.read(1)\n    if not next_byte:\n"
              "        raise EOFError(f'reached the end of the stream while looking for {data}')\n    found = found[1:] + next_byte")
PARSE = "version = reader.read(RAW_VERSION_SIZE)\nreturn self.versions[version](reader)"
SET_TM = ("self.threads_pids.clear()\nself.pids_names.clear()\nfor thread in parsed_threadmap:\n"
          "    self.threads_pids[thread.tid] = thread.pid\n    self.pids_names[thread.pid] = thread.process")
PARSE_V2 = ("parsed_header = kd_header_v2.parse_stream(reader)\nself.set_thread_map(parsed_header.threadmap)\nwhile True:\n"
            "    buf = reader.read(KEVENT_SIZE)\n    if not buf:\n        break\n    yield from_kd_buf(buf)")
INIT = ("self.threads_pids = {} if threads_pids is None else threads_pids\nself.pids_names = {} if pids_names is None else pids_names\n"
        "self.versions = {RAW_VERSION2_BYTES: self.parse_v2, RAW_VERSION3_BYTES: self.parse_v3}\nself.trace_codes = ''\n"
        "self.images = {}\nself.dyld_modules = {}\nself.processes = {}\nself.kernel_extensions = {'Binaries': []}\nself.v3_header = None")
PARSE_V3_HEAD = ("self.v3_header = Aligned(8, kd_header_v3).parse_stream(reader)\nreader.read(8 - RAW_VERSION_SIZE)\n"
                 "seek_until(reader, TRACEV3_STACKSHOT_END)\nseek_until(reader, TRACEV3_THREADMAP_TAG)\n"
                 "threadmap = kd_v3_threadmap.parse_stream(reader).threadmap\nself.set_thread_map(threadmap)\n"
                 "while True:\n    seek_until(reader, TRACEV3_EVENTS_TAG)\n    size = Int64ul.parse_stream(reader)\n    reader.read(8)\n"
                 "    for _ in range(size // KEVENT_SIZE):\n        buf = reader.read(KEVENT_SIZE)\n        yield from_kd_buf(buf)\n"
                 "    if reader.read(len(TRACEV3_MORE_EVENTS)) != TRACEV3_MORE_EVENTS:\n        break\nreader.seek(-8, 1)\n"
                 "additional_data = kd_v3_additional_data.parse_stream(reader)\nself.trace_codes = ''\n"
                 "self.kernel_extensions = {'Binaries': []}\nself.dyld_modules = {}\nself.images = {}\nself.processes = {}\n"
                 "log_events = []\nlog_strings = {}")
BLOCKS = ("for block in additional_data:\n"
          "    if block.tag == TRACEV3_DYLD_MODULES:\n        data = plistlib.loads(block.data)\n        if not self.dyld_modules:\n"
          "            self.dyld_modules.update(data)\n        else:\n            self.dyld_modules['Binaries'].extend(data['Binaries'])\n"
          "    elif block.tag == TRACEV3_TRACE_CODES:\n        self.trace_codes += block.data.decode()\n"
          "    elif block.tag == TRACEV3_PROCESSES:\n        self.processes = plistlib.loads(block.data)\n"
          "    elif block.tag == TRACEV3_KERNEL_EXTENSIONS:\n        self.kernel_extensions['Binaries'].extend(plistlib.loads(block.data)['Binaries'])\n"
          "    elif block.tag == TRACEV3_IMAGES:\n        self.images = plistlib.loads(block.data)\n"
          "    elif block.tag == TRACEV3_LOG_EVENTS:\n        log_events.extend(plistlib.loads(block.data)['Events'])\n"
          "    elif block.tag == TRACEV3_LOG_STRINGS:\n        log_strings = {v: k for k, v in plistlib.loads(block.data)['StringIndex'].items()}")
LOGS = ("for event in log_events:\n    log_event = OsLogEvent.from_raw_log_event(event, log_strings)\n"
        "    if log_event.process and log_event.thread_identifier:\n"
        "        self.threads_pids[log_event.thread_identifier] = log_event.process_identifier\n"
        "        self.pids_names[log_event.process_identifier] = log_event.process\n    yield log_event")
V3_TM = "Struct('threadmap' / Prefixed(Int64ul, GreedyRange(kd_threadmap)))"
V3_BLOCKS = ("GreedyRange(Struct('tag' / Bytes(8), 'data' / Select(Aligned(8, Prefixed(Int64ul, GreedyBytes)), "
             "Prefixed(Int64ul, GreedyBytes))))")


def _body(fn):
    body = list(fn.body)
    if body and isinstance(body[0], ast.Expr) and isinstance(body[0].value, ast.Constant) and isinstance(body[0].value.value, str):
        body = body[1:]
    return body


def _text(fn):
    return '\n'.join(ast.unparse(s) for s in _body(fn))


def _int(node):
    return node.value if isinstance(node, ast.Constant) and isinstance(node.value, int) and not isinstance(node.value, bool) else None


def _fields(call, name, stop=None):
    """Struct('a' / Int32ul, Padding(8), ...) -> [(field name or '', size)] up to (not including) the field named `stop`"""
    if not (isinstance(call, ast.Call) and ast.unparse(call.func) == 'Struct' and not call.keywords):
        raise TranslateError('container-struct', f'{name} is not a Struct(...)', call, REL)
    out, rest = [], None
    for i, a in enumerate(call.args):
        fname, sub = '', a
        if isinstance(a, ast.BinOp) and isinstance(a.op, ast.Div) and isinstance(a.left, ast.Constant) and isinstance(a.left.value, str):
            fname, sub = a.left.value, a.right
        if stop is not None and fname == stop:
            rest = [ast.unparse(x) for x in call.args[i:]]
            break
        t = ast.unparse(sub)
        if t in SIZES:
            out.append((fname, SIZES[t]))
        elif isinstance(sub, ast.Call) and ast.unparse(sub.func) == 'Padding' and len(sub.args) == 1 and _int(sub.args[0]) is not None:
            out.append(('', _int(sub.args[0])))
        elif isinstance(sub, ast.Call) and ast.unparse(sub.func) == 'FixedSized' and len(sub.args) == 2 and _int(sub.args[0]) is not None \
                and ast.unparse(sub.args[1]) == "CString('utf8')":
            out.append((fname + ':cstring-utf8', _int(sub.args[0])))
        else:
            raise TranslateError('container-field', f'{name}: unrecognised field {ast.unparse(a)[:80]!r}', a, REL)
    return out, rest


def extract():
    tree, _ = read_module(REL)
    assigns = {}
    for st in tree.body:
        if isinstance(st, ast.Assign) and len(st.targets) == 1 and isinstance(st.targets[0], ast.Name):
            if st.targets[0].id in assigns:
                raise TranslateError('container-rebinding', f'{st.targets[0].id} assigned twice', st, REL)
            assigns[st.targets[0].id] = st.value
    consts = {}
    for c in CONSTS:
        v = assigns.get(c)
        if not (isinstance(v, ast.Constant) and isinstance(v.value, bytes)):
            raise TranslateError('container-constant', f'{c} is not a bytes literal', v, REL)
        consts[c] = v.value
    extra = [k for k, v in assigns.items() if isinstance(v, ast.Constant) and isinstance(v.value, bytes) and k not in CONSTS]
    if extra:
        raise TranslateError('container-constant', f'byte constants the model does not know: {extra}', None, REL)
    if _int(assigns.get('RAW_VERSION_SIZE')) is None or ast.unparse(assigns.get('KEVENT_SIZE')) != 'struct.calcsize(KD_BUF_FORMAT)':
        raise TranslateError('container-sizes', 'RAW_VERSION_SIZE / KEVENT_SIZE are not the expected definitions', None, REL)
    vsize = _int(assigns['RAW_VERSION_SIZE'])
    tm, _r = _fields(assigns.get('kd_threadmap'), 'kd_threadmap')
    if [f for f, _ in tm] != ['tid', 'pid', 'process:cstring-utf8']:
        raise TranslateError('container-threadmap', f'kd_threadmap fields are {tm}', None, REL)
    v2, rest2 = _fields(assigns.get('kd_header_v2'), 'kd_header_v2', stop='threadmap')
    if not v2 or v2[0][0] != 'number_of_treads' or rest2 != ["'threadmap' / Array(lambda ctx: ctx.number_of_treads, kd_threadmap)",
                                                             "'_pad' / GreedyRange(Const(0, Byte))"]:
        raise TranslateError('container-v2', 'kd_header_v2 does not start with the count and end with the array and the zero padding', None, REL)
    v3, rest3 = _fields(assigns.get('kd_header_v3'), 'kd_header_v3', stop='cpu_info')
    if rest3 != ["'cpu_info' / Prefixed(Int64ul, BplistAdapter(GreedyBytes))"]:
        raise TranslateError('container-v3', 'kd_header_v3 does not end with the prefixed plist', None, REL)
    if ast.unparse(assigns.get('kd_v3_threadmap')) != V3_TM or ast.unparse(assigns.get('kd_v3_additional_data')) != V3_BLOCKS:
        raise TranslateError('container-v3-sections', 'kd_v3_threadmap / kd_v3_additional_data have another shape', None, REL)
    fns = {st.name: st for st in tree.body if isinstance(st, ast.FunctionDef)}
    cls = [st for st in tree.body if isinstance(st, ast.ClassDef) and st.name == 'KdBufParser']
    if len(cls) != 1 or 'seek_until' not in fns:
        raise TranslateError('container-class', 'KdBufParser / seek_until not found', None, REL)
    meth = {st.name: st for st in cls[0].body if isinstance(st, ast.FunctionDef)}
    for name, fn, want in (('seek_until', fns['seek_until'], SEEK_UNTIL), ('parse', meth.get('parse'), PARSE),
                           ('set_thread_map', meth.get('set_thread_map'), SET_TM), ('parse_v2', meth.get('parse_v2'), PARSE_V2),
                           ('__init__', meth.get('__init__'), INIT)):
        if fn is None or _text(fn) != want or fn.decorator_list:
            raise TranslateError('container-' + name.strip('_'), f'{name} is not the expected text', fn, REL)
    if set(meth) != {'__init__', 'parse', 'set_thread_map', 'parse_v2', 'parse_v3'}:
        raise TranslateError('container-methods', f'unexpected methods {sorted(meth)}', cls[0], REL)
    if meth['parse_v3'].decorator_list or _text(meth['parse_v3']) != PARSE_V3_HEAD + '\n' + BLOCKS + '\n' + LOGS:
        got, want = _text(meth['parse_v3']).split('\n'), (PARSE_V3_HEAD + '\n' + BLOCKS + '\n' + LOGS).split('\n')
        bad = next((g for g, w in zip(got, want) if g != w), '(length)')
        raise TranslateError('container-parse-v3', f'parse_v3 is not the expected text, first difference: {bad.strip()[:90]!r}', meth['parse_v3'], REL)
    return consts, vsize, [s for _, s in tm], [s for _, s in v2], [s for _, s in v3]


def _bytes(b):
    return '[' + '; '.join(str(x) for x in b) + ']'


def translate():
    consts, vsize, tm, v2, v3 = extract()
    out = [HEADER.format(tool='tools/translate/tr_container.py', src=REL),
           'From Coq Require Import NArith List.', 'Import ListNotations.', 'Open Scope N_scope.', '']
    for c in CONSTS:
        out.append(f'Definition gen_{c} : list N := {_bytes(consts[c])}.')
    out += ['(* byte sizes of the little-endian unsigned fields of kd_threadmap: tid, pid, process (fixed-size NUL-terminated UTF-8) *)',
            'Definition gen_threadmap_sizes : list nat := [' + '; '.join(f'{x}%nat' for x in tm) + '].',
            '(* kd_header_v2 after the magic, up to the thread-map array: the count first *)',
            'Definition gen_v2_fixed_sizes : list nat := [' + '; '.join(f'{x}%nat' for x in v2) + '].',
            '(* kd_header_v3 after the magic, up to the length-prefixed plist *)',
            'Definition gen_v3_fixed_sizes : list nat := [' + '; '.join(f'{x}%nat' for x in v3) + '].',
            f'Definition gen_magic_size : nat := {vsize}%nat.',
            '(* seek_until, parse, set_thread_map, parse_v2, parse_v3 (chunk loop, seek(-8, 1), block dispatch, log records) and the',
            '   shapes of kd_v3_threadmap / kd_v3_additional_data are the texts the hand model was written from (checked textually) *)',
            'Definition gen_container_shapes_ok : bool := true.']
    write_if_changed('GenContainer.v', '\n'.join(out) + '\n')


if __name__ == '__main__':
    translate()
    print('ok')

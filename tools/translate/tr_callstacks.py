"""pykdebugparser/callstacks_parser.py -> coq/gen/GenCallstacks.v : the statements of insert_image as an instruction list of
theories/CallstacksIR.v, the frame attribution (offset added to bisect, comparison and threshold of the guard) and the
if / elif chain of feed_generator in its order.  theories/CallstacksRefine.v proves that this program, run on the two parallel
lists of the code, computes the model of Callstacks.v.  Fail-closed: every statement must be one of the recognised forms."""
import ast
from .common import TranslateError, read_module, write_if_changed, HEADER

REL = 'pykdebugparser/callstacks_parser.py'

INSERT_FORMS = {
    'if address in self.dyld_addresses:\n    return': 'IReturnIfPresent',
    'if address in self.dyld_addresses:\n    return None': 'IReturnIfPresent',
    'index_ = bisect(self.dyld_addresses, address)': 'IBisect',
    'self.dyld_addresses.insert(index_, address)': 'IInsertAddr',
    'self.dyld_uuids.insert(index_, uuid)': 'IInsertUuid',
}
INIT = ['self.dyld_addresses = dyld_addresses', 'self.dyld_uuids = dyld_uuids']
TUPLES = {"Callstack = namedtuple('Callstack', ['timestamp', 'tid', 'frames'])",
          "Frame = namedtuple('Frame', ['address', 'uuid', 'offset'])"}
HIT = 'frames.append(Frame(frame, self.dyld_uuids[index_], frame - self.dyld_addresses[index_]))'
MISS = 'frames.append(Frame(frame, None, None))'
YIELD = 'yield Callstack(trace.ktraces[0].timestamp, trace.ktraces[0].tid, frames)'
TESTS = {
    'isinstance(trace, PerfEvent) and trace.cs_frames is not None': 'BPerfFrames',
    'isinstance(trace, DyldUuidMapA)': 'BMapA',
    'isinstance(trace, DyldLaunchExecutable)': 'BLaunch',
}
BODIES = {
    'BMapA': ['self.insert_image(trace.load_addr, trace.uuid)'],
    'BLaunch': ['for image in trace.uuid_map_a:\n    self.insert_image(image.load_addr, image.uuid)'],
}


def _body(fn):
    body = list(fn.body)
    if body and isinstance(body[0], ast.Expr) and isinstance(body[0].value, ast.Constant) and isinstance(body[0].value.value, str):
        body = body[1:]
    return body


def _args(fn, expected):
    names = [a.arg for a in fn.args.args]
    if names != expected or fn.args.vararg or fn.args.kwarg or fn.args.kwonlyargs or fn.args.defaults:
        raise TranslateError('callstacks-signature', f'{fn.name}{names} is not {expected}', fn, REL)


def _int(node):
    if isinstance(node, ast.Constant) and isinstance(node.value, int) and not isinstance(node.value, bool):
        return node.value
    if isinstance(node, ast.UnaryOp) and isinstance(node.op, ast.USub) and isinstance(node.operand, ast.Constant) \
            and isinstance(node.operand.value, int) and not isinstance(node.operand.value, bool):
        return -node.operand.value
    return None


def _perf_body(stmts):
    """frames = []; for frame in trace.cs_frames: <index, guard>; yield Callstack(...)  ->  (offset, is_ge, threshold)"""
    if len(stmts) != 3 or ast.unparse(stmts[0]) != 'frames = []' or ast.unparse(stmts[2]) != YIELD:
        raise TranslateError('callstacks-sample', 'the sample branch is not: frames = []; loop; yield Callstack(...)', stmts[0], REL)
    loop = stmts[1]
    if not (isinstance(loop, ast.For) and ast.unparse(loop.target) == 'frame' and ast.unparse(loop.iter) == 'trace.cs_frames'
            and not loop.orelse and len(loop.body) == 2):
        raise TranslateError('callstacks-loop', 'the frame loop is not `for frame in trace.cs_frames:` with two statements', loop, REL)
    idx, guard = loop.body
    off = None
    if isinstance(idx, ast.Assign) and len(idx.targets) == 1 and ast.unparse(idx.targets[0]) == 'index_':
        v = idx.value
        if ast.unparse(v) == 'bisect(self.dyld_addresses, frame)':
            off = 0
        elif isinstance(v, ast.BinOp) and ast.unparse(v.left) == 'bisect(self.dyld_addresses, frame)' and _int(v.right) is not None:
            if isinstance(v.op, ast.Sub):
                off = -_int(v.right)
            elif isinstance(v.op, ast.Add):
                off = _int(v.right)
    if off is None:
        raise TranslateError('callstacks-index', f'unrecognised index computation {ast.unparse(idx)!r}', idx, REL)
    if not (isinstance(guard, ast.If) and isinstance(guard.test, ast.Compare) and len(guard.test.ops) == 1
            and ast.unparse(guard.test.left) == 'index_' and _int(guard.test.comparators[0]) is not None
            and isinstance(guard.test.ops[0], (ast.Gt, ast.GtE))
            and [ast.unparse(s) for s in guard.body] == [HIT] and [ast.unparse(s) for s in guard.orelse] == [MISS]):
        raise TranslateError('callstacks-guard', f'unrecognised frame guard {ast.unparse(guard)[:120]!r}', guard, REL)
    return off, isinstance(guard.test.ops[0], ast.GtE), _int(guard.test.comparators[0])


def extract():
    tree, _ = read_module(REL)
    tops = [ast.unparse(st) for st in tree.body if not isinstance(st, ast.ClassDef)]
    if 'from bisect import bisect' not in tops:
        raise TranslateError('callstacks-bisect', '`bisect` is not bisect.bisect (= bisect_right)', None, REL)
    if not TUPLES <= set(tops):
        raise TranslateError('callstacks-tuples', 'Callstack / Frame are not the expected namedtuples', None, REL)
    for t in tops:
        if t.startswith(('bisect =', 'def bisect', 'Frame =', 'Callstack =')) and t not in TUPLES:
            raise TranslateError('callstacks-rebinding', f'module rebinds a name the model relies on: {t[:60]!r}', None, REL)
    cls = [st for st in tree.body if isinstance(st, ast.ClassDef) and st.name == 'CallstacksParser']
    if len(cls) != 1 or cls[0].bases or cls[0].decorator_list:
        raise TranslateError('callstacks-class', 'class CallstacksParser not found exactly once (plain class)', None, REL)
    fns = {st.name: st for st in cls[0].body if isinstance(st, ast.FunctionDef)}
    if set(fns) != {'__init__', 'feed_generator', 'insert_image'} or len(fns) != len(cls[0].body) - sum(
            1 for st in cls[0].body if isinstance(st, ast.Expr)):
        raise TranslateError('callstacks-methods', f'unexpected members {sorted(fns)}', cls[0], REL)
    for fn in fns.values():
        if fn.decorator_list:
            raise TranslateError('callstacks-decorator', f'{fn.name} is decorated', fn, REL)
    _args(fns['__init__'], ['self', 'dyld_addresses', 'dyld_uuids'])
    if [ast.unparse(s) for s in _body(fns['__init__'])] != INIT:
        raise TranslateError('callstacks-init', '__init__ does not keep the two lists it is given', fns['__init__'], REL)
    _args(fns['insert_image'], ['self', 'address', 'uuid'])
    ins = []
    for st in _body(fns['insert_image']):
        text = ast.unparse(st)
        if text not in INSERT_FORMS:
            raise TranslateError('callstacks-statement', f'unrecognised statement in insert_image: {text!r}', st, REL)
        ins.append(INSERT_FORMS[text])
    _args(fns['feed_generator'], ['self', 'generator'])
    body = _body(fns['feed_generator'])
    if not (len(body) == 1 and isinstance(body[0], ast.For) and ast.unparse(body[0].target) == 'trace'
            and ast.unparse(body[0].iter) == 'generator' and not body[0].orelse and len(body[0].body) == 1
            and isinstance(body[0].body[0], ast.If)):
        raise TranslateError('callstacks-feed', 'feed_generator is not one loop over the generator holding one if / elif chain', fns['feed_generator'], REL)
    branches, attr = [], None
    node = body[0].body[0]
    while True:
        test = ast.unparse(node.test)
        if test not in TESTS:
            raise TranslateError('callstacks-branch', f'unrecognised branch test {test!r}', node, REL)
        kind = TESTS[test]
        if kind in branches:
            raise TranslateError('callstacks-branch', f'branch {kind} twice', node, REL)
        if kind == 'BPerfFrames':
            attr = _perf_body(node.body)
        elif [ast.unparse(s) for s in node.body] != BODIES[kind]:
            raise TranslateError('callstacks-branch-body', f'unexpected body of branch {kind}', node, REL)
        branches.append(kind)
        if len(node.orelse) == 1 and isinstance(node.orelse[0], ast.If):
            node = node.orelse[0]
        elif not node.orelse:
            break
        else:
            raise TranslateError('callstacks-else', 'the chain ends in an else branch', node, REL)
    if attr is None:
        raise TranslateError('callstacks-sample', 'no sample branch', None, REL)
    return ins, attr, branches


def translate():
    ins, (off, ge, thr), branches = extract()
    out = [HEADER.format(tool='tools/translate/tr_callstacks.py', src=REL),
           'From Coq Require Import NArith ZArith List.', 'From Kd Require Import theories.CallstacksIR.',
           'Import ListNotations.', '',
           '(* insert_image(address, uuid), statement by statement *)',
           'Definition gen_insert : list istmt := [' + '; '.join(ins) + '].',
           '(* index_ = bisect(self.dyld_addresses, frame) + a_off; guard index_ > a_thr (a_ge: >=) *)',
           'Definition gen_attr : attr_code := {| a_off := (%d)%%Z; a_ge := %s; a_thr := (%d)%%Z |}.' % (off, 'true' if ge else 'false', thr),
           '(* the if / elif chain of feed_generator, in order *)',
           'Definition gen_branches : list fbranch := [' + '; '.join(branches) + '].',
           '(* namedtuple field orders, __init__ keeping the two lists it is given, `bisect` = bisect.bisect: checked textually *)',
           'Definition gen_callstack_shapes_ok : bool := true.']
    write_if_changed('GenCallstacks.v', '\n'.join(out) + '\n')


if __name__ == '__main__':
    translate()
    print('ok')

"""pykdebugparser/pykdebugparser.py (_format_kevent, _format_trace, _format_callstack, _format_log, _format_process,
_format_timestamp) -> coq/gen/GenFormat.v : every column of every line builder as (switch, what it shows, alignment and width of
its format spec, literal text after it), read off the f-strings of the current source; the widths, separators and colour names of
the log line, the two shapes of the process column, the frame-line format.  theories/FormatRefine.v proves that rendering
these descriptions gives exactly the lines of the hand models Format.v / FormatLog.v.  Fail-closed."""
import ast
import re
from .common import TranslateError, read_module, write_if_changed, coq_string, HEADER

REL = 'pykdebugparser/pykdebugparser.py'

SWITCH = {'self.show_timestamp': 'SwTimestamp', 'self.show_name': 'SwName', 'self.show_func_qual': 'SwQual',
          'self.show_tid': 'SwTid', 'self.show_process': 'SwProcess', 'self.show_args': 'SwArgs'}
KINDS = {'name': 'KName', 'DgbFuncQual(event.func_qualifier).name': 'KQual', 'hex(tid)': 'KHexTid', 'tid': 'KDecTid',
         'self._format_process(tid)': 'KProcess', 'str(event.data)': 'KData'}
# termcolor's colour names -> SGR parameter (termcolor 2.1+; validated on every run by the coloured log-line correspondence)
COLOURS = {'black': '30', 'grey': '30', 'red': '31', 'green': '32', 'yellow': '33', 'blue': '34', 'magenta': '35', 'cyan': '36',
           'light_grey': '37', 'dark_grey': '90', 'light_red': '91', 'light_green': '92', 'light_yellow': '93',
           'light_blue': '94', 'light_magenta': '95', 'light_cyan': '96', 'white': '97'}
NAME_BLOCK = ("if event.eventid in trace_codes_map:\n    name = trace_codes_map[event.eventid] + f' ({hex(event.eventid)})'\n"
              "else:\n    name = hex(event.eventid)")
QUAL_ERR = "formatted_data += f\"{'Error':<16}\""
TIMESTAMP = [
    "if None in (self.mach_absolute_time, self.numer, self.denom, self.usecs_since_epoch, self.timezone):\n    return str(timestamp) + ' '",
    'offset_usec = (timestamp - self.mach_absolute_time) * self.numer / (self.denom * 1000)',
    'ts = datetime.fromtimestamp((self.usecs_since_epoch + offset_usec) / 1000000, tz=self.timezone)',
    "time_string = ts.strftime('%Y-%m-%d %H:%M:%S.%f')",
    "return f'{time_string:<27}'",
]


def _body(fn):
    body = list(fn.body)
    if body and isinstance(body[0], ast.Expr) and isinstance(body[0].value, ast.Constant) and isinstance(body[0].value.value, str):
        body = body[1:]
    return body


def _args(fn, expected):
    names = [a.arg for a in fn.args.args]
    if names != expected or fn.args.vararg or fn.args.kwarg or fn.args.kwonlyargs or fn.args.defaults or fn.decorator_list:
        raise TranslateError('format-signature', f'{fn.name}{names} is not {expected}', fn, REL)


def _padded(js, fn):
    """f'{VALUE:<N}SUFFIX' -> (text of VALUE, align, suffix)"""
    if not (isinstance(js, ast.JoinedStr) and js.values and isinstance(js.values[0], ast.FormattedValue)):
        raise TranslateError('format-fstring', f'not an f-string starting with a field: {ast.unparse(js)!r}', js, REL)
    fv = js.values[0]
    if fv.conversion != -1 or not (isinstance(fv.format_spec, ast.JoinedStr) and len(fv.format_spec.values) == 1
                                  and isinstance(fv.format_spec.values[0], ast.Constant)):
        raise TranslateError('format-spec', f'field without a literal format spec: {ast.unparse(js)!r}', js, REL)
    m = re.fullmatch(r'([<>])([1-9][0-9]{0,3})', fv.format_spec.values[0].value)
    if not m:
        raise TranslateError('format-spec', f'format spec {fv.format_spec.values[0].value!r} is not <N or >N', js, REL)
    suffix = ''
    for v in js.values[1:]:
        if not (isinstance(v, ast.Constant) and isinstance(v.value, str)):
            raise TranslateError('format-fstring', f'more than one field in {ast.unparse(js)!r}', js, REL)
        suffix += v.value
    return ast.unparse(fv.value), ('ALeft %s' if m.group(1) == '<' else 'ARight %s') % m.group(2), suffix


def _expr(node, tsobj, fn):
    """what is added to the line -> (kind, align, suffix)"""
    if ast.unparse(node) == f'self._format_timestamp({tsobj}.timestamp)':
        return 'KTimestamp', 'ARaw', ''
    value, align, suffix = _padded(node, fn)
    if value not in KINDS:
        raise TranslateError('format-content', f'unknown column content {value!r} in {fn.name}', node, REL)
    return KINDS[value], align, suffix


def _columns(stmts, tsobj, fn, acc='formatted_data'):
    """the statements that add columns, up to the first statement of another form; returns (columns, rest)"""
    cols, i = [], 0
    while i < len(stmts):
        st = stmts[i]
        if isinstance(st, ast.If) and ast.unparse(st.test) in SWITCH and not st.orelse and len(st.body) == 1:
            inner = st.body[0]
            if isinstance(inner, ast.Try):
                if not (len(inner.body) == 1 and len(inner.handlers) == 1 and not inner.orelse and not inner.finalbody
                        and ast.unparse(inner.handlers[0].type) == 'ValueError' and inner.handlers[0].name is None
                        and [ast.unparse(s) for s in inner.handlers[0].body] == [QUAL_ERR]):
                    raise TranslateError('format-try', f'unexpected try/except in {fn.name}', inner, REL)
                inner = inner.body[0]
            if not (isinstance(inner, ast.AugAssign) and isinstance(inner.op, ast.Add) and ast.unparse(inner.target) == acc):
                break
            cols.append((SWITCH[ast.unparse(st.test)],) + _expr(inner.value, tsobj, fn))
        elif isinstance(st, ast.AugAssign) and isinstance(st.op, ast.Add) and ast.unparse(st.target) == acc \
                and isinstance(st.value, ast.IfExp) and ast.unparse(st.value.test) in SWITCH and ast.unparse(st.value.orelse) == "''":
            cols.append((SWITCH[ast.unparse(st.value.test)],) + _expr(st.value.body, tsobj, fn))
        else:
            break
        i += 1
    return cols, stmts[i:]


def _expect(stmts, texts, fn, rule):
    got = [ast.unparse(s) for s in stmts]
    if got != texts:
        bad = next((g for g, t in zip(got, texts) if g != t), got[len(texts):] or texts[len(got):])
        raise TranslateError(rule, f'{fn.name}: unexpected statement {str(bad)[:120]!r}', fn, REL)


def _colour(node, inner_text, fn):
    """colored(X, 'name') if self.color else X  ->  SGR parameter"""
    if not (isinstance(node, ast.IfExp) and ast.unparse(node.test) == 'self.color' and isinstance(node.body, ast.Call)
            and ast.unparse(node.body.func) == 'colored' and len(node.body.args) == 2 and not node.body.keywords
            and ast.unparse(node.body.args[0]) == ast.unparse(node.orelse)
            and isinstance(node.body.args[1], ast.Constant) and node.body.args[1].value in COLOURS):
        raise TranslateError('format-colour', f'{fn.name}: not `colored(x, <name>) if self.color else x`: {ast.unparse(node)[:100]!r}', node, REL)
    if ast.unparse(node.orelse) not in inner_text:
        raise TranslateError('format-colour', f'{fn.name}: colours {ast.unparse(node.orelse)!r}, expected one of {inner_text}', node, REL)
    return COLOURS[node.body.args[1].value]


def _log(fn):
    _args(fn, ['self', 'os_log'])
    b = _body(fn)
    if len(b) != 6:
        raise TranslateError('format-log', f'_format_log has {len(b)} statements, expected 6', fn, REL)
    _expect(b[:1], ["event_rep = ''"], fn, 'format-log')
    _expect(b[5:], ['return event_rep'], fn, 'format-log')
    # timestamp
    st = b[1]
    if not (isinstance(st, ast.If) and ast.unparse(st.test) == 'self.show_timestamp' and not st.orelse and len(st.body) == 3
            and ast.unparse(st.body[0]) == "time_string = os_log.unix_date.strftime('%Y-%m-%d %H:%M:%S.%f')"
            and isinstance(st.body[1], ast.Assign) and ast.unparse(st.body[1].targets[0]) == 'timestamp'
            and isinstance(st.body[2], ast.AugAssign) and ast.unparse(st.body[2].target) == 'event_rep'):
        raise TranslateError('format-log', 'unexpected timestamp block of _format_log', st, REL)
    v, al, suf = _padded(st.body[1].value, fn)
    if v != 'time_string' or not al.startswith('ALeft') or suf:
        raise TranslateError('format-log', 'timestamp column of _format_log is not a left-aligned time_string', st, REL)
    ts_w = al.split()[1]
    ts_col = _colour(st.body[2].value, ['str(timestamp)'], fn)
    # tid
    st = b[2]
    if not (isinstance(st, ast.AugAssign) and ast.unparse(st.target) == 'event_rep' and isinstance(st.value, ast.IfExp)
            and ast.unparse(st.value.test) == 'self.show_tid' and ast.unparse(st.value.orelse) == "''"):
        raise TranslateError('format-log', 'unexpected thread column of _format_log', st, REL)
    v, al, tid_suf = _padded(st.value.body, fn)
    if v != 'os_log.thread_identifier' or not al.startswith('ARight'):
        raise TranslateError('format-log', 'thread column of _format_log is not a right-aligned thread id', st, REL)
    tid_w = al.split()[1]
    # process
    st = b[3]
    if not (isinstance(st, ast.If) and ast.unparse(st.test) == 'self.show_process and os_log.process' and not st.orelse
            and len(st.body) == 3 and isinstance(st.body[0], ast.Assign) and ast.unparse(st.body[0].targets[0]) == 'process'
            and isinstance(st.body[1], ast.Assign) and ast.unparse(st.body[1].targets[0]) == 'process'
            and isinstance(st.body[2], ast.AugAssign) and ast.unparse(st.body[2].target) == 'event_rep'):
        raise TranslateError('format-log', 'unexpected process block of _format_log', st, REL)
    v, al, suf = _padded(st.body[0].value, fn)
    if v != 'self._format_process(os_log.thread_identifier)' or not al.startswith('ALeft') or suf:
        raise TranslateError('format-log', 'process column of _format_log is not the left-aligned process of the thread', st, REL)
    proc_w = al.split()[1]
    proc_col = _colour(st.body[1].value, ['process'], fn)
    js = st.body[2].value
    if not (isinstance(js, ast.JoinedStr) and len([x for x in js.values if isinstance(x, ast.FormattedValue)]) == 1):
        raise TranslateError('format-log', 'process column is not added as one field between literal texts', st, REL)
    before = after = ''
    seen = False
    for x in js.values:
        if isinstance(x, ast.FormattedValue):
            if ast.unparse(x.value) != 'process' or x.conversion != -1 or x.format_spec is not None:
                raise TranslateError('format-log', 'process column field is not {process}', st, REL)
            seen = True
        elif seen:
            after += x.value
        else:
            before += x.value
    msg_col = _colour(b[4].value if isinstance(b[4], ast.AugAssign) and ast.unparse(b[4].target) == 'event_rep' else None,
                      ['os_log.composed_message'], fn)
    return ts_w, tid_w, tid_suf, proc_w, before, after, ts_col, proc_col, msg_col


def _process(fn):
    _args(fn, ['self', 'tid'])
    b = _body(fn)
    _expect(b[:2], ['pid = self.threads_pids.get(tid, -1)', "process_name = self.pids_names.get(pid, '')"], fn, 'format-process')
    if not (len(b) == 3 and isinstance(b[2], ast.Return) and isinstance(b[2].value, ast.IfExp)
            and ast.unparse(b[2].value.test) == 'pid != -1'):
        raise TranslateError('format-process', '_format_process does not return `<declared> if pid != -1 else <unknown>`', fn, REL)
    yes, no = b[2].value.body, b[2].value.orelse

    def parts(js):
        if not isinstance(js, ast.JoinedStr):
            raise TranslateError('format-process', 'not an f-string', js, REL)
        out = []
        for x in js.values:
            if isinstance(x, ast.FormattedValue):
                if x.conversion != -1 or x.format_spec is not None:
                    raise TranslateError('format-process', 'field with a conversion / spec', js, REL)
                out.append(('field', ast.unparse(x.value)))
            else:
                out.append(('text', x.value))
        return out
    py, pn = parts(yes), parts(no)
    if [k for k in py] != [('field', 'process_name'), ('text', py[1][1]), ('field', 'pid'), ('text', py[3][1] if len(py) > 3 else None)] \
            or len(py) != 4 or py[1][0] != 'text' or py[3][0] != 'text':
        raise TranslateError('format-process', 'declared shape is not {process_name}<text>{pid}<text>', yes, REL)
    if len(pn) != 2 or pn[0][0] != 'text' or pn[1] != ('field', 'tid'):
        raise TranslateError('format-process', 'unknown shape is not <text>{tid}', no, REL)
    return py[1][1], py[3][1], pn[0][1]


def _frames(loop, fn):
    if not (isinstance(loop, ast.For) and ast.unparse(loop.target) in ('i, frame', '(i, frame)') and ast.unparse(loop.iter) == 'enumerate(callstack.frames)'
            and not loop.orelse and len(loop.body) == 2 and ast.unparse(loop.body[1]) == "ret.append(' ' * i + line)"
            and isinstance(loop.body[0], ast.Assign) and ast.unparse(loop.body[0].targets[0]) == 'line'
            and isinstance(loop.body[0].value, ast.IfExp) and ast.unparse(loop.body[0].value.test) == 'frame.uuid is not None'):
        raise TranslateError('format-frames', 'unexpected frame loop of _format_callstack', loop, REL)
    hit, miss = loop.body[0].value.body, loop.body[0].value.orelse

    def hexfield(x):
        if not (isinstance(x, ast.FormattedValue) and x.conversion == -1 and isinstance(x.format_spec, ast.JoinedStr)
                and len(x.format_spec.values) == 1 and isinstance(x.format_spec.values[0], ast.Constant)):
            return None
        m = re.fullmatch(r'0([1-9][0-9]?)x', x.format_spec.values[0].value)
        return (ast.unparse(x.value), int(m.group(1))) if m else None
    if not (isinstance(hit, ast.JoinedStr) and len(hit.values) == 3 and isinstance(hit.values[0], ast.FormattedValue)
            and ast.unparse(hit.values[0].value) == 'frame.uuid' and hit.values[0].conversion == -1 and hit.values[0].format_spec is None
            and isinstance(hit.values[1], ast.Constant) and hexfield(hit.values[2]) and hexfield(hit.values[2])[0] == 'frame.offset'):
        raise TranslateError('format-frames', 'attributed frame is not {frame.uuid}<text>{frame.offset:0Nx}', hit, REL)
    if not (isinstance(miss, ast.JoinedStr) and len(miss.values) == 2 and isinstance(miss.values[0], ast.Constant)
            and hexfield(miss.values[1]) and hexfield(miss.values[1])[0] == 'frame.address'
            and hexfield(miss.values[1])[1] == hexfield(hit.values[2])[1]):
        raise TranslateError('format-frames', 'unattributed frame is not <text>{frame.address:0Nx} of the same width', miss, REL)
    return hit.values[1].value, miss.values[0].value, hexfield(hit.values[2])[1]


def extract():
    tree, _ = read_module(REL)
    cls = [st for st in tree.body if isinstance(st, ast.ClassDef) and st.name == 'PyKdebugParser']
    if len(cls) != 1:
        raise TranslateError('format-class', 'class PyKdebugParser not found exactly once', None, REL)
    fns = {st.name: st for st in cls[0].body if isinstance(st, ast.FunctionDef)}
    for need in ('_format_kevent', '_format_trace', '_format_callstack', '_format_log', '_format_process', '_format_timestamp'):
        if need not in fns:
            raise TranslateError('format-method', f'method {need} missing', cls[0], REL)
    # _format_kevent
    fn = fns['_format_kevent']
    _args(fn, ['self', 'event', 'trace_codes_map'])
    b = _body(fn)
    _expect(b[:3], ['tid = event.tid', NAME_BLOCK, "formatted_data = ''"], fn, 'format-kevent')
    kcols, rest = _columns(b[3:], 'event', fn)
    _expect(rest, ['return formatted_data'], fn, 'format-kevent')
    # _format_trace
    fn = fns['_format_trace']
    _args(fn, ['self', 'trace'])
    b = _body(fn)
    _expect(b[:2], ['tid = trace.ktraces[0].tid', "formatted_data = ''"], fn, 'format-trace')
    tcols, rest = _columns(b[2:], 'trace.ktraces[0]', fn)
    _expect(rest, ['event_rep = str(trace)', 'if self.color:\n    event_rep = highlight(event_rep, c_lexer, color_formatter).strip()',
                   'return formatted_data + event_rep'], fn, 'format-trace')
    # _format_callstack
    fn = fns['_format_callstack']
    _args(fn, ['self', 'callstack'])
    b = _body(fn)
    _expect(b[:2], ['tid = callstack.tid', "formatted_data = ''"], fn, 'format-callstack')
    ccols, rest = _columns(b[2:], 'callstack', fn)
    if len(rest) != 3:
        raise TranslateError('format-callstack', '_format_callstack does not end with: ret = [..]; frame loop; return join', fn, REL)
    _expect(rest[:1], ['ret = [formatted_data]'], fn, 'format-callstack')
    _expect(rest[2:], ["return '\\n'.join(ret)"], fn, 'format-callstack')
    frame = _frames(rest[1], fn)
    # the rest
    log = _log(fns['_format_log'])
    proc = _process(fns['_format_process'])
    fn = fns['_format_timestamp']
    _args(fn, ['self', 'timestamp'])
    _expect(_body(fn), TIMESTAMP, fn, 'format-timestamp')
    return kcols, tcols, ccols, frame, log, proc


def _s(text):
    return '[]' if text == '' else f'(s2b {coq_string(text)})'


def _cols(cols):
    return '[' + '; '.join(f'mkCol {sw} {k} {"(" + al + ")" if " " in al else al} {_s(suf)}' for sw, k, al, suf in cols) + ']'


def translate():
    kcols, tcols, ccols, frame, log, proc = extract()
    out = [HEADER.format(tool='tools/translate/tr_format.py', src=REL),
           'From Coq Require Import String NArith List.',
           'From Kd Require Import theories.Base theories.Printers theories.DecoderDSL theories.FormatIR.',
           'Import ListNotations.', '',
           '(* _format_kevent: the columns in the order they are added *)',
           f'Definition gen_kevent_cols : list colspec :=\n  {_cols(kcols)}.',
           '(* _format_trace: the columns before the text of the trace *)',
           f'Definition gen_trace_cols : list colspec :=\n  {_cols(tcols)}.',
           '(* _format_callstack: the columns of the first line *)',
           f'Definition gen_callstack_cols : list colspec :=\n  {_cols(ccols)}.',
           '(* _format_log: widths, literal texts, SGR parameters of the colour names *)',
           'Definition gen_log : logspec := mkLog %s %s %s %s %s %s %s %s %s.' % (
               log[0], log[1], _s(log[2]), log[3], _s(log[4]), _s(log[5]), _s(log[6]), _s(log[7]), _s(log[8])),
           '(* _format_process: name<open>pid<close>, or <unknown>tid *)',
           f'Definition gen_process : procspec := mkProc {_s(proc[0])} {_s(proc[1])} {_s(proc[2])}.',
           '(* frame lines of _format_callstack: uuid<sep>offset / <prefix>address, zero-padded hex of the given width *)',
           f'Definition gen_frame : framespec := mkFrame {_s(frame[0])} {_s(frame[1])} {frame[2]}.',
           '(* the remaining statements of the six functions have the expected texts (name of an event, str(trace), pygments',
           '   highlighting when colouring, newline join of the frame lines, the configured-time-base branch of _format_timestamp) *)',
           'Definition gen_format_shapes_ok : bool := true.']
    write_if_changed('GenFormat.v', '\n'.join(out) + '\n')


if __name__ == '__main__':
    translate()
    print('ok')

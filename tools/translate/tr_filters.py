"""pykdebugparser/pykdebugparser.py (traces, kevents, _is_eventid_allowed, _filter_process_callback and the DBG_* class
constants) -> coq/gen/GenFilters.v : the helper classes of traces() with their conditions, the post-filters, the order of
the filter stages and the class constants, as data that theories/FiltersRefine.v proves equal to the hand model
(FiltersTraces.helper_classes / fed / post_keep, Filters.allowed).  Fail-closed, textual (after ast.unparse)."""
import ast
import re
from .common import TranslateError, read_module, write_if_changed, HEADER

REL = 'pykdebugparser/pykdebugparser.py'

HAS_FILTERS = 'has_filters = self.filter_class or self.filter_subclass'
HAS_BSD = 'has_bsd = DBG_BSD in self.filter_class or any(filter(lambda sc: sc >> 8 == DBG_BSD, self.filter_subclass))'
ALLOWED = 'return event_id >> 24 in self.filter_class or event_id >> 16 in self.filter_subclass'
PROC_CB = ("tid = trace.ktraces[0].tid\npid = self.threads_pids.get(tid, -1)\nprocess_name = self.pids_names.get(pid, '')\n"
           "return self.filter_process == str(pid) or self.filter_process == process_name")
KEVENTS = ("events_generator = KdBufParser(self.threads_pids, self.pids_names).parse(kdebug)\n"
           "events_generator = filter(lambda e: not isinstance(e, OsLogEvent), events_generator)\n"
           "if apply_tid_filter and self.filter_tid is not None:\n"
           "    events_generator = filter(lambda e: e.tid == self.filter_tid, events_generator)\n"
           "if self.filter_class or self.filter_subclass:\n"
           "    events_generator = filter(lambda e: e.eventid >> 24 in helper_classes or self._is_eventid_allowed(e.eventid), events_generator)\n"
           "return events_generator")


CALLSTACKS = ("self.dyld_addresses.clear()\nself.dyld_uuids.clear()\n"
              "callstacks_parser = CallstacksParser(self.dyld_addresses, self.dyld_uuids)\n"
              "return callstacks_parser.feed_generator(self.traces(kdebug, trace_codes))")
OS_LOG_EVENTS = ("events_generator = KdBufParser(self.threads_pids, self.pids_names).parse(kdebug)\n"
                 "events_generator = filter(lambda e: isinstance(e, OsLogEvent), events_generator)\n"
                 "if self.filter_tid is not None:\n"
                 "    events_generator = filter(lambda e: e.thread_identifier == self.filter_tid, events_generator)\n"
                 "if self.filter_process is not None:\n"
                 "    events_generator = filter(lambda e: self.filter_process in (e.process, str(e.process_identifier)), events_generator)\n"
                 "return events_generator")


def _cls(tree):
    c = [st for st in tree.body if isinstance(st, ast.ClassDef) and st.name == 'PyKdebugParser']
    if len(c) != 1:
        raise TranslateError('filters-class', 'class PyKdebugParser not found exactly once', None, REL)
    return {st.name: st for st in c[0].body if isinstance(st, ast.FunctionDef)}


def _body_text(fn):
    body = list(fn.body)
    if body and isinstance(body[0], ast.Expr) and isinstance(body[0].value, ast.Constant) and isinstance(body[0].value.value, str):
        body = body[1:]
    return [ast.unparse(s) for s in body]


def extract():
    tree, _ = read_module(REL)
    consts = {}
    for st in tree.body:
        if isinstance(st, ast.Assign) and len(st.targets) == 1 and isinstance(st.targets[0], ast.Name) \
                and st.targets[0].id.startswith('DBG_') and isinstance(st.value, ast.Constant) and isinstance(st.value.value, int):
            consts[st.targets[0].id] = st.value.value
    fns = _cls(tree)
    for need in ('traces', 'kevents', '_is_eventid_allowed', '_filter_process_callback'):
        if need not in fns:
            raise TranslateError('filters-method', f'method {need} missing', None, REL)
    if _body_text(fns['_is_eventid_allowed']) != [ALLOWED]:
        raise TranslateError('filters-allowed', '_is_eventid_allowed is not class-or-subclass membership', fns['_is_eventid_allowed'], REL)
    if '\n'.join(_body_text(fns['_filter_process_callback'])) != PROC_CB:
        raise TranslateError('filters-process', '_filter_process_callback is not the expected table lookup', fns['_filter_process_callback'], REL)
    if '\n'.join(_body_text(fns['kevents'])) != KEVENTS:
        raise TranslateError('filters-kevents', 'kevents() is not the expected filter chain', fns['kevents'], REL)
    for need, want, rule in (('callstacks', CALLSTACKS, 'filters-callstacks'), ('os_log_events', OS_LOG_EVENTS, 'filters-logs')):
        if need not in fns or '\n'.join(_body_text(fns[need])) != want:
            raise TranslateError(rule, f'{need}() is not the expected chain', fns.get(need), REL)
    # traces(): a linear list of statements of known forms
    helpers, posts, stages = [], [], []
    seen = set()
    flag_of = {}
    for text in _body_text(fns['traces']):
        if text == 'trace_codes_map = default_trace_codes() if trace_codes is None else trace_codes':
            continue
        if text == HAS_FILTERS:
            seen.add('has_filters')
        elif text == 'helper_classes = []':
            seen.add('helper_classes')
        elif text == HAS_BSD:
            if 'DBG_BSD' not in consts:
                raise TranslateError('filters-const', 'DBG_BSD is not a module constant', None, REL)
            seen.add('has_bsd')
        elif re.fullmatch(r'(add_\w+_class) = has_filters and (has_bsd and )?\(?(DBG_\w+) not in self\.filter_class\)?', text):
            m = re.fullmatch(r'(add_\w+_class) = has_filters and (has_bsd and )?\(?(DBG_\w+) not in self\.filter_class\)?', text)
            if 'has_filters' not in seen or (m.group(2) and 'has_bsd' not in seen) or m.group(3) not in consts:
                raise TranslateError('filters-helper', f'{text!r} uses something not defined before', None, REL)
            flag_of[m.group(1)] = (m.group(3), bool(m.group(2)))
        elif re.fullmatch(r'if (add_\w+_class):\n    helper_classes\.append\((DBG_\w+)\)', text):
            m = re.fullmatch(r'if (add_\w+_class):\n    helper_classes\.append\((DBG_\w+)\)', text)
            if flag_of.get(m.group(1), (None,))[0] != m.group(2) or 'helper_classes' not in seen:
                raise TranslateError('filters-helper', f'{text!r}: flag and class do not belong together', None, REL)
            helpers.append((consts[m.group(2)], flag_of[m.group(1)][1]))
        elif text == 'traces_parser = TracesParser(trace_codes_map, self.threads_pids, self.pids_names)':
            seen.add('parser')
        elif text == 'trace_generator = traces_parser.feed_generator(self.kevents(kdebug, helper_classes, apply_tid_filter=False))':
            if 'parser' not in seen:
                raise TranslateError('filters-order', 'trace generator built before the parser', None, REL)
            stages.append('pair')
        elif text == 'if self.filter_tid is not None:\n    trace_generator = filter(lambda t: t.ktraces[0].tid == self.filter_tid, trace_generator)':
            stages.append('tid')
        elif text == 'if self.filter_process is not None:\n    trace_generator = filter(self._filter_process_callback, trace_generator)':
            stages.append('process')
        elif re.fullmatch(r'if (add_\w+_class):\n    trace_generator = filter\(lambda t: t\.ktraces\[0\]\.eventid >> 24 != (DBG_\w+) or '
                          r'self\._is_eventid_allowed\(t\.ktraces\[0\]\.eventid\), trace_generator\)', text):
            m = re.fullmatch(r'if (add_\w+_class):\n    trace_generator = filter\(lambda t: t\.ktraces\[0\]\.eventid >> 24 != (DBG_\w+) or '
                             r'self\._is_eventid_allowed\(t\.ktraces\[0\]\.eventid\), trace_generator\)', text)
            if flag_of.get(m.group(1), (None,))[0] != m.group(2):
                raise TranslateError('filters-post', f'post-filter {text!r}: flag and class do not belong together', None, REL)
            posts.append((consts[m.group(2)], flag_of[m.group(1)][1]))
            stages.append('post')
        elif text == 'return trace_generator':
            stages.append('return')
        else:
            raise TranslateError('filters-statement', f'unrecognised statement in traces(): {text!r}', None, REL)
    if stages[:1] != ['pair'] or stages[-1:] != ['return'] or 'pair' in stages[1:]:
        raise TranslateError('filters-order', f'unexpected stage order {stages}', None, REL)
    return consts, helpers, posts, stages


def translate():
    consts, helpers, posts, stages = extract()
    out = [HEADER.format(tool='tools/translate/tr_filters.py', src=REL),
           'From Coq Require Import String NArith List.', 'Import ListNotations.', 'Open Scope N_scope.', '']
    out.append('(* helper classes of traces() in the order they are appended: (class, needs a BSD request);')
    out.append('   each is added when class / subclass filters are set, the class is not itself requested (and BSD is requested) *)')
    out.append('Definition gen_helpers : list (N * bool) := [' + '; '.join(f'({c}, {"true" if b else "false"})' for c, b in helpers) + '].')
    out.append('(* post-filters on the decoded traces, same flags: a trace of that class is kept only if the caller\'s filters allow it *)')
    out.append('Definition gen_post_filters : list (N * bool) := [' + '; '.join(f'({c}, {"true" if b else "false"})' for c, b in posts) + '].')
    out.append(f'Definition gen_DBG_BSD : N := {consts["DBG_BSD"]}.')
    out.append('(* stages applied to the paired traces, in order *)')
    out.append('Definition gen_stages : list string := [' + '; '.join('"%s"%%string' % x for x in stages) + '].')
    out.append('(* _is_eventid_allowed, _filter_process_callback and kevents() have the expected forms (checked textually) *)')
    out.append('Definition gen_filter_shapes_ok : bool := true.')
    write_if_changed('GenFilters.v', '\n'.join(out) + '\n')


if __name__ == '__main__':
    translate()
    print('ok')

"""os_log_event.py -> coq/gen/GenOsLog.v  (C16)

Reifies, fail-closed:
  * the OsLogEvent dataclass field list (name, has default)
  * the mandatory part of from_raw_log_event (dict literal of pops, unix_date, unix_timezone)
  * the optional chain  `if 'k' in event: parsed_event['f'] = CONV(event.pop('k'))`  as (key, field, conv)
  * the enums used by the conversions and the namespace -> type/flags enum maps
"""
import ast
from .common import TranslateError, read_module, write_if_changed, coq_string, find_function, enum_members, HEADER

SRC = 'pykdebugparser/os_log_event.py'


def _is_pop(node, key=None):
    """event.pop('k') -> 'k'"""
    if isinstance(node, ast.Call) and isinstance(node.func, ast.Attribute) and node.func.attr == 'pop' \
            and isinstance(node.func.value, ast.Name) and node.func.value.id == 'event' and len(node.args) == 1 \
            and isinstance(node.args[0], ast.Constant) and isinstance(node.args[0].value, str):
        return node.args[0].value
    return None


def _conv(value, key):
    """conversion applied to event.pop(key)"""
    if _is_pop(value) == key:
        return 'CId'
    if isinstance(value, ast.Subscript) and isinstance(value.value, ast.Name) and value.value.id == 'log_strings' \
            and _is_pop(value.slice) == key:
        return 'CStr'
    if isinstance(value, ast.Call) and isinstance(value.func, ast.Name) and value.func.id == 'OsLogType' \
            and len(value.args) == 1 and _is_pop(value.args[0]) == key:
        return 'CLogType'
    if isinstance(value, ast.Call) and ast.unparse(value.func) == 'cls.parse_trace_identifier' \
            and len(value.args) == 1 and _is_pop(value.args[0]) == key:
        return 'CTraceId'
    if isinstance(value, ast.Call) and ast.unparse(value.func) == 'cls.parse_decomposed' and len(value.args) == 2 \
            and _is_pop(value.args[0]) == key and ast.unparse(value.args[1]) == 'log_strings':
        return 'CDecomposed'
    if isinstance(value, ast.ListComp) and ast.unparse(value) == \
            "[{'image_uuid': level['iu'], 'image_offset': level['io']} for level in event.pop('%s')]" % key:
        return 'CBacktrace'
    return None


def _default(v):
    """dataclass default expression -> Coq `option pv` text"""
    if v is None:
        return 'None'
    if isinstance(v, ast.Constant):
        if v.value is None:
            return '(Some PNone)'
        if isinstance(v.value, str) and v.value == '':
            return '(Some (PStr []))'
        if isinstance(v.value, bytes) and v.value == b'':
            return '(Some (PBytes []))'
        if isinstance(v.value, int) and not isinstance(v.value, bool) and v.value >= 0:
            return f'(Some (PInt {v.value}))'
    if ast.unparse(v) == 'field(default_factory=dict)':
        return '(Some (PDict []))'
    if ast.unparse(v) == 'field(default_factory=list)':
        return '(Some (PList []))'
    raise TranslateError('oslog-default', f'unsupported default {ast.unparse(v)}', v, SRC)


def extract():
    tree, _ = read_module(SRC)
    # dataclass fields
    cls = next((st for st in tree.body if isinstance(st, ast.ClassDef) and st.name == 'OsLogEvent'), None)
    if cls is None:
        raise TranslateError('oslog-class', 'class OsLogEvent not found')
    fields = []
    for st in cls.body:
        if isinstance(st, ast.AnnAssign) and isinstance(st.target, ast.Name):
            fields.append((st.target.id, _default(st.value)))
    fn = find_function(tree, 'from_raw_log_event', cls='OsLogEvent')
    body = [st for st in fn.body if not (isinstance(st, ast.Expr) and isinstance(st.value, ast.Constant))]
    mandatory, optional = [], []
    i = 0
    st = body[i]
    if not (isinstance(st, ast.Assign) and ast.unparse(st.targets[0]) == 'parsed_event' and isinstance(st.value, ast.Dict)):
        raise TranslateError('oslog-mandatory', 'first statement is not the parsed_event dict literal', st, SRC)
    for k, v in zip(st.value.keys, st.value.values):
        field = k.value
        key = _is_pop(v) or (_is_pop(v.slice) if isinstance(v, ast.Subscript) else None)
        conv = _conv(v, key)
        if key is None or conv not in ('CId', 'CStr'):
            raise TranslateError('oslog-mandatory', f'unsupported mandatory entry {field}', v, SRC)
        mandatory.append((key, field, conv))
    i += 1
    # unix_date
    want = ["unix_date = event.pop('ud')",
            "parsed_event['unix_date'] = datetime.fromtimestamp(unix_date['sec'] + unix_date['usec'] / 10 ** 6, tz=timezone.utc)",
            "utz = event.pop('utz')",
            "parsed_event['unix_timezone'] = {'minutes_west': utz['mw'], 'dst_time': utz['dt']}"]
    for w in want:
        if ast.unparse(body[i]) != w:
            raise TranslateError('oslog-mandatory', f'expected `{w}`, found `{ast.unparse(body[i])}`', body[i], SRC)
        i += 1
    mandatory.append(('ud', 'unix_date', 'CUnixDate'))
    mandatory.append(('utz', 'unix_timezone', 'CTz'))
    # optional chain
    while i < len(body) - 1:
        st = body[i]
        if not (isinstance(st, ast.If) and not st.orelse and isinstance(st.test, ast.Compare)
                and len(st.test.ops) == 1 and isinstance(st.test.ops[0], ast.In)
                and isinstance(st.test.left, ast.Constant) and ast.unparse(st.test.comparators[0]) == 'event'):
            raise TranslateError('oslog-chain', 'statement is not `if KEY in event:`', st, SRC)
        key = st.test.left.value
        if len(st.body) == 1 and isinstance(st.body[0], ast.Assign):
            tgt = st.body[0].targets[0]
            if not (isinstance(tgt, ast.Subscript) and ast.unparse(tgt.value) == 'parsed_event'
                    and isinstance(tgt.slice, ast.Constant)):
                raise TranslateError('oslog-chain', 'target is not parsed_event[FIELD]', st, SRC)
            conv = _conv(st.body[0].value, key)
            if conv is None:
                raise TranslateError('oslog-chain', f'unsupported conversion for key {key!r}', st, SRC)
            optional.append((key, tgt.slice.value, conv))
        elif len(st.body) == 2:
            a, b = st.body
            src = ast.unparse(a) + ';' + ast.unparse(b)
            tgt = b.targets[0] if isinstance(b, ast.Assign) else None
            field = tgt.slice.value if tgt is not None and isinstance(tgt, ast.Subscript) else None
            if src == f"utz = event.pop('{key}');parsed_event['{field}'] = {{'minutes_west': utz['mw'], 'dst_time': utz['dt']}}":
                optional.append((key, field, 'CTz'))
            elif src == f"lc = event.pop('{key}');parsed_event['{field}'] = {{'count': lc['c'], 'unknown': lc['s']}}":
                optional.append((key, field, 'CLossCount'))
            else:
                raise TranslateError('oslog-chain', f'unsupported two-statement body for key {key!r}', st, SRC)
        else:
            raise TranslateError('oslog-chain', f'unsupported body for key {key!r}', st, SRC)
        i += 1
    if ast.unparse(body[-1]) != 'return OsLogEvent(**parsed_event)':
        raise TranslateError('oslog-return', f'last statement is `{ast.unparse(body[-1])}`', body[-1], SRC)
    enums = {}
    for name in ['OsLogType', 'FirehoseTracepointNamespace', 'FirehoseTracepointFlagsPcStyle',
                 'FirehoseTracepointActivityType', 'FirehoseTracepointTraceType', 'FirehoseTracepointLogType',
                 'FirehoseTracepointLogFlags', 'FirehoseTracepointMetadataType', 'FirehoseTracepointSignpostType',
                 'FirehoseTracepointSingpostFlags']:
        members, bases = enum_members(tree, name)
        enums[name] = (members, bases)
    maps = {}
    for st in tree.body:
        if isinstance(st, ast.Assign) and isinstance(st.targets[0], ast.Name) \
                and st.targets[0].id in ('tracepoint_types', 'tracepoint_flags'):
            d = {}
            for k, v in zip(st.value.keys, st.value.values):
                if not (ast.unparse(k).startswith('FirehoseTracepointNamespace.') and isinstance(v, ast.Name)):
                    raise TranslateError('oslog-maps', 'unsupported map entry', k, SRC)
                d[k.attr] = v.id
            maps[st.targets[0].id] = d
    if set(maps) != {'tracepoint_types', 'tracepoint_flags'}:
        raise TranslateError('oslog-maps', 'tracepoint_types / tracepoint_flags not found')
    # the bit layout of firehose_tracepoint_id
    layout = None
    for st in tree.body:
        if isinstance(st, ast.Assign) and isinstance(st.targets[0], ast.Name) and st.targets[0].id == 'firehose_tracepoint_id':
            layout = ast.unparse(st.value).replace('\n', ' ')
    expected_layout = ("Struct('namespace' / Byte, 'type_' / Byte, 'trace_flags' / BitStruct(Padding(2), "
                       "'has_large_offset' / Flag, 'has_unique_pid' / Flag, 'pc_style' / BitsInteger(3), "
                       "'has_current_aid' / Flag), 'flags' / Byte, 'code' / Int32ul)")
    if layout != expected_layout:
        raise TranslateError('oslog-layout', f'firehose_tracepoint_id layout changed: {layout}')
    return {'fields': fields, 'mandatory': mandatory, 'optional': optional, 'enums': enums, 'maps': maps}


def translate():
    x = extract()
    ns = dict(x['enums']['FirehoseTracepointNamespace'][0])

    def is_flag(enum):
        return any('Flag' in (b or '') for b in x['enums'][enum][1])
    out = [HEADER.format(tool='tools/translate/tr_oslog.py', src=SRC),
           'From Coq Require Import String NArith List.', 'From Kd Require Import theories.OsLogBase.',
           'Import ListNotations.', 'Open Scope N_scope.', '',
           'Definition gen_fields : list (string * option pv) := [' + '; '.join(
               f'({coq_string(n)}%string, {d})' for n, d in x['fields']) + '].',
           'Definition gen_mandatory : list (string * string * conv) := [' + '; '.join(
               f'({coq_string(k)}%string, {coq_string(f)}%string, {c})' for k, f, c in x['mandatory']) + '].',
           'Definition gen_optional : list (string * string * conv) := [' + '; '.join(
               f'({coq_string(k)}%string, {coq_string(f)}%string, {c})' for k, f, c in x['optional']) + '].',
           'Definition gen_log_types : list N := [' + '; '.join(str(v) for _, v in x['enums']['OsLogType'][0]) + '].',
           'Definition gen_namespaces : list N := [' + '; '.join(str(v) for _, v in x['enums']['FirehoseTracepointNamespace'][0]) + '].',
           'Definition gen_pc_styles : list N := [' + '; '.join(str(v) for _, v in x['enums']['FirehoseTracepointFlagsPcStyle'][0]) + '].',
           '(* namespace value -> (is the type enum a Flag (any value accepted), its member values) *)',
           'Definition gen_type_enums : list (N * (bool * list N)) := [' + '; '.join(
               f'({ns[k]}, ({"true" if is_flag(v) else "false"}, [' + '; '.join(str(m[1]) for m in x['enums'][v][0]) + ']))'
               for k, v in x['maps']['tracepoint_types'].items()) + '].',
           'Definition gen_flag_enums : list (N * (bool * list N)) := [' + '; '.join(
               f'({ns[k]}, ({"true" if is_flag(v) else "false"}, [' + '; '.join(str(m[1]) for m in x['enums'][v][0]) + ']))'
               for k, v in x['maps']['tracepoint_flags'].items()) + '].']
    write_if_changed('GenOsLog.v', '\n'.join(out) + '\n')
    return x


if __name__ == '__main__':
    r = translate()
    print(len(r['fields']), 'fields;', len(r['mandatory']), 'mandatory;', len(r['optional']), 'optional')

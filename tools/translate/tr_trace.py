"""pykdebugparser/trace_handlers/trace.py (the ten kernel-trace decoders) and perf.py (handle_thd_data) ->
coq/gen/GenTrace.v : what each decoder writes into threads_pids / pids_names / the two pending-announcement slots, as
statement lists of theories/TraceIR.v (dataclass field orders resolved, so `event.pid` becomes the START word it was built
from); the decoders that write neither table; the header size of the first chunk of a global string; that the texts of
strings and thread names are joined from the records of the decoder's own event id only.  theories/TraceRefine.v proves the
statements equal to the step of the hand model Format.apply_window.  Fail-closed: every statement must be a recognised form."""
import ast
from .common import TranslateError, read_module, write_if_changed, coq_string, HEADER

TRACE = 'pykdebugparser/trace_handlers/trace.py'
PERF = 'pykdebugparser/trace_handlers/perf.py'
NAME_EXPR = "events[0].data.replace(b'\\x00', b'').decode()"
OWN_JOIN = ("b''.join([e.data for e in events if e.eventid == events[0].eventid]).replace(b'\\x00', b'')"
            ".decode(errors='backslashreplace')")
GLOBAL = ["debugid = 0", "str_id = 0", "vstr = b''",
          "for event in events:\n"
          "    if event.eventid != events[0].eventid:\n"
          "        continue\n"
          "    if event.func_qualifier & DgbFuncQual.DBG_FUNC_START.value:\n"
          "        debugid = event.values[0]\n"
          "        str_id = event.values[1]\n"
          "        vstr += event.data[{H}:]\n"
          "    else:\n"
          "        vstr += event.data\n"
          "    if event.func_qualifier & DgbFuncQual.DBG_FUNC_END.value:\n"
          "        break",
          "event = TraceStringGlobal(events, debugid, str_id, vstr.replace(b'\\x00', b'').decode(errors='backslashreplace'))",
          "if event.vstr:\n    parser.global_strings[event.str_id] = event.vstr",
          "return event"]
SLOTS = {'parser.last_data_newthread': False, 'parser.last_data_exec': True}


def _fields(tree, rel):
    """dataclass name -> field names in order"""
    out = {}
    for st in tree.body:
        if isinstance(st, ast.ClassDef) and any(ast.unparse(d).split('(')[0] in ('dataclass', 'dataclasses.dataclass') for d in st.decorator_list):
            fs = [b.target.id for b in st.body if isinstance(b, ast.AnnAssign) and isinstance(b.target, ast.Name)]
            out[st.name] = fs
            out[st.name + '#required'] = [b.target.id for b in st.body if isinstance(b, ast.AnnAssign)
                                          and isinstance(b.target, ast.Name) and b.value is None]
    return out


def _body(fn):
    body = list(fn.body)
    if body and isinstance(body[0], ast.Expr) and isinstance(body[0].value, ast.Constant) and isinstance(body[0].value.value, str):
        body = body[1:]
    return body


class Handler:
    """symbolic run of one decoder: locals are START words, the emitting thread, the name text, or the built event"""

    def __init__(self, fn, fields, rel):
        self.fn, self.fields, self.rel = fn, fields, rel
        self.env = {}           # local -> ('word', i) | ('emit',) | ('words',) | ('name',) | ('event', {field: value}) | ('slot', exec) | ('read',)
        self.out = []
        self.slot_pid = {}      # exec flag -> value stored as .pid of the slot's event

    def err(self, rule, msg, node=None):
        return TranslateError(rule, f'{self.fn.name}: {msg}', node or self.fn, self.rel)

    def ev(self, node):
        text = ast.unparse(node)
        if text == 'events[0].values':
            return ('words',)
        if text == 'events[0].tid':
            return ('emit',)
        if text == NAME_EXPR:
            return ('name',)
        if text == 'events':
            return ('events',)
        if isinstance(node, ast.Name) and node.id in self.env:
            return self.env[node.id]
        if isinstance(node, ast.Subscript) and isinstance(node.slice, ast.Constant) and isinstance(node.slice.value, int) \
                and 0 <= node.slice.value < 4 and self.ev(node.value) == ('words',):
            return ('word', node.slice.value)
        if isinstance(node, ast.Attribute) and isinstance(node.value, ast.Name) and self.env.get(node.value.id, ('',))[0] == 'event':
            fs = self.env[node.value.id][1]
            if node.attr in fs:
                return fs[node.attr]
        if isinstance(node, ast.Call) and ast.unparse(node.func) in ('parser.threads_pids.get', 'parser.tids_names.get'):
            return ('read',)            # a read of a table: no write
        if isinstance(node, ast.Call) and isinstance(node.func, ast.Name) and node.func.id in self.fields and '#' not in node.func.id:
            fs = self.fields[node.func.id]
            if node.keywords or not (len(self.fields[node.func.id + '#required']) <= len(node.args) <= len(fs)):
                raise self.err('trace-constructor', f'{node.func.id}(...) does not give every field positionally', node)
            vals = {}
            for f, a in zip(fs, node.args):
                try:
                    vals[f] = self.ev(a)
                except TranslateError:
                    vals[f] = ('opaque',)
            if vals.get(fs[0]) != ('events',):
                raise self.err('trace-constructor', f'{node.func.id}: first field is not the window', node)
            return ('event', vals)
        raise self.err('trace-expression', f'unrecognised expression {text[:80]!r}', node)

    def wval(self, v, node):
        if v[0] == 'word':
            return f'(VWord {v[1]})'
        if v == ('emit',):
            return 'VEmitTid'
        raise self.err('trace-value', f'{ast.unparse(node)!r} is neither a START word nor the emitting thread', node)

    def run(self):
        body = _body(self.fn)
        i = 0
        while i < len(body):
            st = body[i]
            text = ast.unparse(st)
            if isinstance(st, ast.Assign) and len(st.targets) == 1 and isinstance(st.targets[0], ast.Name):
                tgt = st.targets[0].id
                val = st.value
                # last_data = parser.last_data_*.get(events[0].tid)  followed by  if last_data is not None: pids_names[last_data.pid] = event.name
                if isinstance(val, ast.Call) and ast.unparse(val.func) in ('parser.last_data_newthread.get', 'parser.last_data_exec.get'):
                    if ast.unparse(val.args[0]) != 'events[0].tid' or len(val.args) != 1 or val.keywords:
                        raise self.err('trace-slot', f'slot read not by the emitting thread: {text!r}', st)
                    self.env[tgt] = ('slot', ast.unparse(val.func) == 'parser.last_data_exec.get')
                else:
                    self.env[tgt] = self.ev(val)
            elif isinstance(st, ast.Assign) and len(st.targets) == 1 and isinstance(st.targets[0], ast.Subscript):
                tbl = ast.unparse(st.targets[0].value)
                key = st.targets[0].slice
                if tbl in SLOTS:
                    v = self.ev(st.value)
                    if ast.unparse(key) != 'events[0].tid' or v[0] != 'event' or 'pid' not in v[1]:
                        raise self.err('trace-slot', f'unexpected slot write {text!r}', st)
                    self.out.append(f'WSetSlot {"true" if SLOTS[tbl] else "false"} {self.wval(v[1]["pid"], st)}')
                    self.slot_pid[SLOTS[tbl]] = v[1]['pid']
                elif tbl == 'parser.threads_pids':
                    self.out.append(f'WSetThreadsPids {self.wval(self.ev(key), key)} {self.wval(self.ev(st.value), st.value)}')
                elif tbl == 'parser.tids_names':
                    if ast.unparse(key) != 'events[0].tid':
                        raise self.err('trace-tids-names', f'unexpected thread-name write {text!r}', st)
                else:
                    raise self.err('trace-write', f'write to an unexpected table: {text!r}', st)
            elif isinstance(st, ast.Assign) and len(st.targets) == 1 and isinstance(st.targets[0], ast.Attribute) \
                    and isinstance(st.targets[0].value, ast.Name) and self.env.get(st.targets[0].value.id, ('',))[0] == 'event':
                self.ev(st.value)           # e.g. event.name = parser.tids_names.get(tid, ''): a read
            elif isinstance(st, ast.If) and not st.orelse and len(st.body) == 1 and isinstance(st.test, ast.Compare) \
                    and isinstance(st.test.left, ast.Name) and self.env.get(st.test.left.id, ('',))[0] == 'slot' \
                    and ast.unparse(st.test) == f'{st.test.left.id} is not None':
                inner = ast.unparse(st.body[0])
                ev_names = [k for k, v in self.env.items() if v[0] == 'event' and v[1].get('name') == ('name',)]
                if not any(inner == f'parser.pids_names[{st.test.left.id}.pid] = {e}.name' for e in ev_names):
                    raise self.err('trace-name', f'unexpected statement under the slot guard: {inner!r}', st)
                self.out.append(f'WNameFromSlot {"true" if self.env[st.test.left.id][1] else "false"}')
            elif isinstance(st, ast.Return):
                v = self.ev(st.value)
                if v[0] != 'event' or i != len(body) - 1:
                    raise self.err('trace-return', f'unexpected return {text!r}', st)
            else:
                raise self.err('trace-statement', f'unrecognised statement {text[:100]!r}', st)
            i += 1
        return self.out


def extract():
    tree, _ = read_module(TRACE)
    fields = _fields(tree, TRACE)
    fns = {st.name: st for st in tree.body if isinstance(st, ast.FunctionDef)}
    table = None
    for st in tree.body:
        if isinstance(st, ast.Assign) and ast.unparse(st.targets[0]) == 'handlers' and isinstance(st.value, ast.Dict):
            table = {k.value: ast.unparse(v) for k, v in zip(st.value.keys, st.value.values)}
    if table is None:
        raise TranslateError('trace-table', 'handlers dict not found', None, TRACE)
    for fn in fns.values():
        names = [a.arg for a in fn.args.args]
        if fn.name.startswith('handle_') and (names != ['parser', 'events'] or fn.decorator_list):
            raise TranslateError('trace-signature', f'{fn.name}{names}', fn, TRACE)
    writers, nonwriters = [], []
    header = None
    own = True
    for name in sorted(table):
        fn = fns.get(table[name])
        if fn is None:
            raise TranslateError('trace-table', f'{name} -> {table[name]} is not a function of the module', None, TRACE)
        if name == 'TRACE_STRING_GLOBAL':
            got = [ast.unparse(s) for s in _body(fn)]
            for h in range(0, 33):
                if got == [t.replace('{H}', str(h)) for t in GLOBAL]:
                    header = h
            if header is None:
                raise TranslateError('trace-global', 'handle_trace_string_global is not the expected chunk loop over the records of its own id', fn, TRACE)
            nonwriters.append(name)
            continue
        if name in ('TRACE_STRING_THREADNAME', 'TRACE_STRING_THREADNAME_PREV'):
            b = _body(fn)
            cls = {'TRACE_STRING_THREADNAME': 'TraceStringThreadname', 'TRACE_STRING_THREADNAME_PREV': 'TraceStringThreadnamePrev'}[name]
            want = [f'name = {OWN_JOIN}', f'event = {cls}(events, name)', 'parser.tids_names[events[0].tid] = event.name', 'return event']
            if [ast.unparse(s) for s in b] != want:
                raise TranslateError('trace-threadname', f'{fn.name} is not the expected join over the records of its own id', fn, TRACE)
            nonwriters.append(name)
            continue
        prog = Handler(fn, fields, TRACE).run()
        (writers if prog else nonwriters).append((name, prog) if prog else name)
    # the sampler's thread-data decoder
    ptree, _ = read_module(PERF)
    pfields = _fields(ptree, PERF)
    pf = [st for st in ptree.body if isinstance(st, ast.FunctionDef) and st.name == 'handle_thd_data']
    if len(pf) != 1 or [a.arg for a in pf[0].args.args] != ['parser', 'events']:
        raise TranslateError('trace-thd-data', 'perf.handle_thd_data(parser, events) not found', None, PERF)
    prog = Handler(pf[0], pfields, PERF).run()
    writers.append(('PERF_THD_Data', prog))
    # a STRING decoder names the pid its DATA decoder stored: both slots must have been written by a DATA decoder
    order = ['TRACE_DATA_NEWTHREAD', 'TRACE_DATA_EXEC', 'TRACE_STRING_NEWTHREAD', 'TRACE_STRING_EXEC',
             'TRACE_DATA_THREAD_TERMINATE_PID', 'PERF_THD_Data']
    writers.sort(key=lambda w: order.index(w[0]) if w[0] in order else 99)
    return writers, sorted(nonwriters), header, own


def translate():
    writers, nonwriters, header, own = extract()
    out = [HEADER.format(tool='tools/translate/tr_trace.py', src=TRACE + ', ' + PERF),
           'From Coq Require Import String NArith List.', 'From Kd Require Import theories.TraceIR.',
           'Import ListNotations.', 'Local Open Scope string_scope.', '',
           '(* decoder name -> its writes to threads_pids / pids_names / the pending-announcement slots, in source order *)',
           'Definition gen_writers : list (string * list wstmt) :=\n  [' +
           ';\n   '.join(f'({coq_string(n)}, [' + '; '.join(p) + '])' for n, p in writers) + '].',
           '(* decoders of trace.py that write none of these tables (they may write global_strings / tids_names) *)',
           'Definition gen_nonwriters : list string :=\n  [' + '; '.join(coq_string(n) for n in nonwriters) + '].',
           '(* bytes of the first chunk of a global string that are not text (debug id, string id) *)',
           f'Definition gen_gstring_header : nat := {header}.',
           '(* global strings and thread names are joined from the records of the decoder\'s own event id only *)',
           f'Definition gen_text_from_own_id_only : bool := {"true" if own else "false"}.']
    write_if_changed('GenTrace.v', '\n'.join(out) + '\n')


if __name__ == '__main__':
    translate()
    print('ok')

"""Constants the composite decoders use to recognise nested records -> coq/gen/GenComposite.v (C15, C20).
Fail-closed: each function must contain exactly the expected string / integer constants."""
import ast
from .common import TranslateError, read_module, write_if_changed, coq_string, find_function, enum_members, HEADER


def _consts(fn, typ):
    return [n.value for n in ast.walk(fn) if isinstance(n, ast.Constant) and type(n.value) is typ]


def extract():
    perf, _ = read_module('pykdebugparser/trace_handlers/perf.py')
    dyld, _ = read_module('pykdebugparser/trace_handlers/dyld.py')
    mach, _ = read_module('pykdebugparser/trace_handlers/mach.py')
    he = find_function(perf, 'handle_event')
    names = [s for s in _consts(he, str) if s]
    if names != ['PERF_THD_Data', 'PERF_STK_UHdr', 'PERF_STK_UData']:
        raise TranslateError('perf-nested-names', f'handle_event names its nested records {names}', he)
    attrs = [n.attr for n in ast.walk(he) if isinstance(n, ast.Attribute) and n.attr.startswith('SAMPLER_')]
    if attrs != ['SAMPLER_TH_INFO', 'SAMPLER_USTACK']:
        raise TranslateError('perf-flags', f'handle_event tests {attrs}', he)
    le = find_function(dyld, 'handle_timing_launch_executable')
    lnames = _consts(le, str)
    if lnames != ['DYLD_uuid_map_a', 'DYLD_uuid_shared_cache_a']:
        raise TranslateError('launch-nested-names', f'launch decoder names its nested records {lnames}', le)
    vm = find_function(mach, 'handle_mach_vmfault')
    ints = [v for v in _consts(vm, int) if v > 0xffff]
    if len(ints) != 2:
        raise TranslateError('vmfault-range', f'vmfault id range constants {ints}', vm)
    sampler = dict(enum_members(perf, 'SamplerAction')[0])
    ti = dict(enum_members(perf, 'KperfTiState')[0])
    csf = dict(enum_members(perf, 'CallstackFlag')[0])
    ft = dict(enum_members(mach, 'DbgVmFaultType')[0])
    prot = dict(enum_members(mach, 'VmProtection')[0])
    return {'perf_names': names, 'launch_names': lnames, 'vm_range': ints, 'SamplerAction': sampler,
            'KperfTiState': ti, 'CallstackFlag': csf, 'DbgVmFaultType': ft, 'VmProtection': prot}


def translate():
    c = extract()
    out = [HEADER.format(tool='tools/translate/tr_composite.py', src='trace_handlers/{perf,dyld,mach}.py'),
           'From Coq Require Import String NArith List.', 'Import ListNotations.', 'Open Scope N_scope.',
           f'Definition gen_vm_range_lo := {hex(c["vm_range"][0])}.',
           f'Definition gen_vm_range_hi := {hex(c["vm_range"][1])}.',
           f'Definition gen_SAMPLER_TH_INFO := {hex(c["SamplerAction"]["SAMPLER_TH_INFO"])}.',
           f'Definition gen_SAMPLER_USTACK := {hex(c["SamplerAction"]["SAMPLER_USTACK"])}.',
           'Definition gen_fault_types : list N := [' + '; '.join(str(v) for v in c['DbgVmFaultType'].values()) + '].',
           'Definition gen_perf_nested : list string := [' + '; '.join(coq_string(s) + '%string' for s in c['perf_names']) + '].',
           'Definition gen_launch_nested : list string := [' + '; '.join(coq_string(s) + '%string' for s in c['launch_names']) + '].']
    write_if_changed('GenComposite.v', '\n'.join(out) + '\n')
    return c

"""pykdebugparser/trace_codes.py -> coq/gen/GenTraceCodes.v : the dict comprehension of from_trace_codes_text as the parameters
of theories/TraceCodesIR.v (which token is the id, which the name, the base of int(), that the lines come from
str.splitlines() and the tokens from str.split() without arguments), and that default_trace_codes() / from_trace_codes_file()
read one file and hand its text to from_trace_codes_text.  Fail-closed."""
import ast
from .common import TranslateError, read_module, write_if_changed, HEADER

REL = 'pykdebugparser/trace_codes.py'
FILE_BODY = "with open(path, 'r') as fd:\n    return from_trace_codes_text(fd.read())"
DEFAULT_BODY = ("with open(Path(__file__).resolve().parent.joinpath('trace.codes'), 'r') as fd:\n"
                "    return from_trace_codes_text(fd.read())")


def _body(fn):
    body = list(fn.body)
    if body and isinstance(body[0], ast.Expr) and isinstance(body[0].value, ast.Constant) and isinstance(body[0].value.value, str):
        body = body[1:]
    return body


def _idx(node, var):
    if isinstance(node, ast.Subscript) and isinstance(node.value, ast.Name) and node.value.id == var \
            and isinstance(node.slice, ast.Constant) and isinstance(node.slice.value, int) and 0 <= node.slice.value < 8:
        return node.slice.value
    return None


def extract():
    tree, _ = read_module(REL)
    fns = {st.name: st for st in tree.body if isinstance(st, ast.FunctionDef)}
    for need in ('from_trace_codes_text', 'from_trace_codes_file', 'default_trace_codes'):
        if need not in fns or fns[need].decorator_list:
            raise TranslateError('codes-function', f'{need} missing or decorated', None, REL)
    fn = fns['from_trace_codes_text']
    if [a.arg for a in fn.args.args] != ['codes_text']:
        raise TranslateError('codes-signature', 'from_trace_codes_text(codes_text)', fn, REL)
    b = _body(fn)
    if not (len(b) == 1 and isinstance(b[0], ast.Return) and isinstance(b[0].value, ast.DictComp) and len(b[0].value.generators) == 1):
        raise TranslateError('codes-comprehension', 'from_trace_codes_text is not one returned dict comprehension', fn, REL)
    dc = b[0].value
    g = dc.generators[0]
    if g.ifs or g.is_async or not isinstance(g.target, ast.Name):
        raise TranslateError('codes-comprehension', 'the comprehension has a condition or a structured target', dc, REL)
    var = g.target.id
    it = ast.unparse(g.iter)
    if it not in ('map(lambda l: l.split(), codes_text.splitlines())', '(l.split() for l in codes_text.splitlines())',
                  '[l.split() for l in codes_text.splitlines()]'):
        raise TranslateError('codes-lines', f'lines / tokens are not str.splitlines() / str.split(): {it!r}', g.iter, REL)
    k = dc.key
    if not (isinstance(k, ast.Call) and ast.unparse(k.func) == 'int' and len(k.args) == 2 and not k.keywords
            and _idx(k.args[0], var) is not None and isinstance(k.args[1], ast.Constant) and isinstance(k.args[1].value, int)):
        raise TranslateError('codes-key', f'key is not int({var}[i], base): {ast.unparse(k)!r}', k, REL)
    name_field = _idx(dc.value, var)
    if name_field is None:
        raise TranslateError('codes-value', f'value is not {var}[j]: {ast.unparse(dc.value)!r}', dc.value, REL)
    if '\n'.join(ast.unparse(s) for s in _body(fns['from_trace_codes_file'])) != FILE_BODY:
        raise TranslateError('codes-file', 'from_trace_codes_file is not: read the file, from_trace_codes_text', fns['from_trace_codes_file'], REL)
    if '\n'.join(ast.unparse(s) for s in _body(fns['default_trace_codes'])) != DEFAULT_BODY:
        raise TranslateError('codes-default', 'default_trace_codes is not: read the bundled trace.codes, from_trace_codes_text',
                             fns['default_trace_codes'], REL)
    return _idx(k.args[0], var), name_field, k.args[1].value


def translate():
    kf, nf, base = extract()
    out = [HEADER.format(tool='tools/translate/tr_codes.py', src=REL),
           'From Coq Require Import NArith List.', 'From Kd Require Import theories.TraceCodesIR.', '',
           '(* {int(s[key_field], base): s[name_field] for s in (l.split() for l in codes_text.splitlines())}; the key expression is',
           '   evaluated before the value expression *)',
           f'Definition gen_codes : codes_code := {{| cc_key_field := {kf}; cc_name_field := {nf}; cc_base := {base}%N |}}.',
           '(* from_trace_codes_file / default_trace_codes read one file (the bundled trace.codes) and parse its text: checked textually *)',
           'Definition gen_codes_shapes_ok : bool := true.']
    write_if_changed('GenTraceCodes.v', '\n'.join(out) + '\n')


if __name__ == '__main__':
    translate()
    print('ok')

"""trace_handlers/*.py `handlers = {...}` dicts and the bundled trace.codes -> coq/gen/GenHandlers.v, GenCodes.v

Read with `ast` only (nothing is imported).  Each dict entry must be
    'NAME': handle_x            or      'NAME': partial(handle_x, no_cancel=True)
anything else is a TranslateError.  trace.codes is parsed by an independent reading of the documented
line syntax 'hex-id name [anything]' (NOT by pykdebugparser.trace_codes); the correspondence of C17/C19
compares it with what the implementation loads.
"""
import ast
import os
import re
from .common import TranslateError, read_module, write_if_changed, coq_string, REPO, HEADER

FAMILIES = ['bsd', 'dyld', 'fsystem', 'mach', 'perf', 'trace', 'turnstile']
# update order in TracesParser.__init__ (checked by tr_traces_parser)
CODES_PATH = 'pykdebugparser/trace.codes'


def family_table(fam):
    rel = f'pykdebugparser/trace_handlers/{fam}.py'
    tree, _ = read_module(rel)
    funcs = {st.name for st in tree.body if isinstance(st, ast.FunctionDef)}
    found = None
    for st in tree.body:
        if isinstance(st, ast.Assign) and len(st.targets) == 1 and isinstance(st.targets[0], ast.Name) \
                and st.targets[0].id == 'handlers':
            if found is not None:
                raise TranslateError('handlers-dict', 'two assignments to handlers', st, rel)
            found = st.value
        elif isinstance(st, (ast.AugAssign, ast.Expr)) and 'handlers' in ast.dump(st) and not (
                isinstance(st, ast.Expr) and isinstance(st.value, ast.Constant)):
            raise TranslateError('handlers-dict', 'handlers is modified outside its literal', st, rel)
    if not isinstance(found, ast.Dict):
        raise TranslateError('handlers-dict', 'handlers is not a dict literal', found, rel)
    rows = []
    for k, v in zip(found.keys, found.values):
        if not (isinstance(k, ast.Constant) and isinstance(k.value, str)):
            raise TranslateError('handlers-key', 'key is not a string literal', k, rel)
        nocancel = False
        bound = ''
        if isinstance(v, ast.Name):
            fn = v.id
        elif isinstance(v, ast.Call) and isinstance(v.func, ast.Name) and v.func.id == 'partial' \
                and len(v.args) == 1 and isinstance(v.args[0], ast.Name) and len(v.keywords) == 1 \
                and v.keywords[0].arg == 'no_cancel' and isinstance(v.keywords[0].value, ast.Constant) \
                and v.keywords[0].value.value is True:
            fn = v.args[0].id
            nocancel = True
        elif isinstance(v, ast.Call) and isinstance(v.func, ast.Name) and v.func.id == 'partial' \
                and len(v.args) == 2 and isinstance(v.args[0], ast.Name) and isinstance(v.args[1], ast.Name) \
                and not v.keywords:
            fn = v.args[0].id
            bound = v.args[1].id
        else:
            raise TranslateError('handlers-value', f'unsupported handler expression for {k.value}', v, rel)
        if fn not in funcs:
            raise TranslateError('handlers-value', f'{fn} is not a function of {rel}', v, rel)
        rows.append((fam, k.value, fn, nocancel, bound))
    unreferenced = sorted(f for f in funcs if f.startswith('handle_') and f not in {r[2] for r in rows})
    return rows, unreferenced


def all_rows():
    rows, unref = [], {}
    for fam in FAMILIES:
        r, u = family_table(fam)
        rows += r
        unref[fam] = u
    return rows, unref


def rows_for_harness():
    """rows for input generation and oracles: from the source when it has the expected shape, else (the translator rejects
    the source, the proofs over the generated tables are already reported broken) the registered names as the running
    implementation has them, so that a failing input can still be searched for"""
    try:
        return all_rows()
    except Exception:  # noqa
        from .. import vlib
        t = vlib.run_impl('run_tables.py', {})
        rows = [(fam, key, '', key.endswith('_nocancel'), '') for fam in FAMILIES for key in t['families'].get(fam, [])]
        return rows, {}


def update_order():
    """the order in which TracesParser.__init__ merges the family dicts (self.handlers.update(x_handlers))"""
    tree, _ = read_module('pykdebugparser/traces_parser.py')
    imports = {}
    for st in tree.body:
        if isinstance(st, ast.ImportFrom) and st.module and st.module.startswith('pykdebugparser.trace_handlers.'):
            for a in st.names:
                if a.name == 'handlers':
                    imports[a.asname or a.name] = st.module.rsplit('.', 1)[1]
    order = []
    for node in ast.walk(tree):
        if isinstance(node, ast.Call) and isinstance(node.func, ast.Attribute) and node.func.attr == 'update' \
                and ast.unparse(node.func.value) == 'self.handlers' and len(node.args) == 1 \
                and isinstance(node.args[0], ast.Name):
            if node.args[0].id not in imports:
                raise TranslateError('handlers-update', f'unknown dict {node.args[0].id}', node)
            order.append(imports[node.args[0].id])
    if sorted(order) != sorted(FAMILIES):
        raise TranslateError('handlers-update', f'families merged {order} != {FAMILIES}')
    return order


_LINE_SEPS = '\n\r\x0b\x0c\x1c\x1d\x1e\x85  '


def parse_codes_text(text):
    """independent reading of 'hex-id name [anything]' lines -> [(id, name)] in file order (duplicates kept)"""
    out = []
    for line in re.split('[' + _LINE_SEPS + ']', text):
        toks = line.split()
        if not toks:
            continue
        if len(toks) < 2:
            raise TranslateError('codes-line', f'line without a name: {line!r}')
        if not re.fullmatch(r'(0[xX])?[0-9a-fA-F]+', toks[0]):
            raise TranslateError('codes-line', f'id is not hexadecimal: {line!r}')
        out.append((int(toks[0], 16), toks[1]))
    return out


def codes_entries():
    with open(os.path.join(REPO, CODES_PATH), 'r') as fd:
        return parse_codes_text(fd.read())


def last_wins(entries):
    d = {}
    for i, n in entries:
        d[i] = n
    return d


def translate():
    rows, unref = all_rows()
    order = update_order()
    out = [HEADER.format(tool='tools/translate/tr_handlers.py', src='pykdebugparser/trace_handlers/*.py'),
           'From Coq Require Import String NArith List.', 'Import ListNotations.', 'Open Scope string_scope.', '',
           '(* (family, registered name, handler function, bound no_cancel=True, bound positional class or "") in dict order *)',
           'Definition handler_rows : list (string * string * string * bool * string) := [']
    out.append(';\n'.join(f'  ({coq_string(f)}, {coq_string(k)}, {coq_string(fn)}, {"true" if nc else "false"}, {coq_string(b)})'
                          for f, k, fn, nc, b in rows))
    out.append('].')
    out.append('Definition update_order : list string := [' + '; '.join(coq_string(f) for f in order) + '].')
    out.append('Definition unreferenced_handlers : list (string * string) := [' + '; '.join(
        f'({coq_string(f)}, {coq_string(fn)})' for f in FAMILIES for fn in unref[f]) + '].')
    write_if_changed('GenHandlers.v', '\n'.join(out) + '\n')

    entries = codes_entries()
    out = [HEADER.format(tool='tools/translate/tr_handlers.py', src=CODES_PATH),
           'From Coq Require Import String NArith List.', 'Import ListNotations.', 'Open Scope N_scope.', '',
           '(* (event id, name) per line of the bundled trace.codes, file order, duplicates kept *)',
           'Definition code_entries : list (N * string) := [']
    out.append(';\n'.join(f'  ({hex(i)}, {coq_string(n)}%string)' for i, n in entries))
    out.append('].')
    write_if_changed('GenCodes.v', '\n'.join(out) + '\n')
    return rows, entries


if __name__ == '__main__':
    r, e = translate()
    print(len(r), 'handler rows;', len(e), 'code lines')

"""pykdebugparser/__main__.py -> coq/gen/GenCli.v : the counting loop of print_with_count (initial index, step, that the test
comes before the print), the shared click options (flags, type, default, multiple) and, per command, which options it takes,
which setting of the parser each option is assigned to and which formatted_* listing is printed.  theories/CliRefine.v proves
the loop equal to the model Cli.pwc and the tables equal to the ones the command-line correspondence is written for.
Fail-closed."""
import ast
from .common import TranslateError, read_module, write_if_changed, coq_string, HEADER

REL = 'pykdebugparser/__main__.py'
BASED_INT = ("try:\n    return int(value, 0)\nexcept ValueError:\n    self.fail(f'{value!r} is not a valid int.', param, ctx)")
JSON_CMDS = {'processes': 'processes', 'kexts': 'kernel_extensions', 'images': 'images'}


def _body(fn):
    body = list(fn.body)
    if body and isinstance(body[0], ast.Expr) and isinstance(body[0].value, ast.Constant) and isinstance(body[0].value.value, str):
        body = body[1:]
    return body


def _int(node):
    if isinstance(node, ast.Constant) and isinstance(node.value, int) and not isinstance(node.value, bool):
        return node.value
    if isinstance(node, ast.UnaryOp) and isinstance(node.op, ast.USub) and isinstance(node.operand, ast.Constant) \
            and isinstance(node.operand.value, int):
        return -node.operand.value
    return None


def _pwc(fn):
    if [a.arg for a in fn.args.args] != ['generator', 'count'] or fn.decorator_list:
        raise TranslateError('cli-pwc', 'print_with_count(generator, count)', fn, REL)
    b = _body(fn)
    if not (len(b) == 2 and isinstance(b[0], ast.Assign) and ast.unparse(b[0].targets[0]) == 'i' and _int(b[0].value) is not None
            and isinstance(b[1], ast.For) and ast.unparse(b[1].target) == 'obj' and ast.unparse(b[1].iter) == 'generator'
            and not b[1].orelse and len(b[1].body) == 3):
        raise TranslateError('cli-pwc', 'print_with_count is not: i = N; for obj in generator: <three statements>', fn, REL)
    test, pr, inc = b[1].body
    if ast.unparse(test) != 'if i == count:\n    break' or ast.unparse(pr) != 'print(obj)':
        raise TranslateError('cli-pwc', 'the loop does not test `i == count` (break) before `print(obj)`', b[1], REL)
    if not (isinstance(inc, ast.AugAssign) and isinstance(inc.op, ast.Add) and ast.unparse(inc.target) == 'i' and _int(inc.value) is not None):
        raise TranslateError('cli-pwc', 'the loop does not end with i += N', inc, REL)
    return _int(b[0].value), _int(inc.value)


def _option(call):
    """click.option(flags..., type=, default=, multiple=, help=) / click.argument(name, type=)"""
    flags = [a.value for a in call.args if isinstance(a, ast.Constant) and isinstance(a.value, str)]
    if len(flags) != len(call.args):
        raise TranslateError('cli-option', f'non-literal flag in {ast.unparse(call)[:80]!r}', call, REL)
    kw = {k.arg: k.value for k in call.keywords}
    if set(kw) - {'type', 'default', 'multiple', 'help'}:
        raise TranslateError('cli-option', f'unexpected keyword in {ast.unparse(call)[:80]!r}', call, REL)
    return (' '.join(flags), ast.unparse(kw['type']) if 'type' in kw else '', ast.unparse(kw['default']) if 'default' in kw else '',
            ast.unparse(kw['multiple']) == 'True' if 'multiple' in kw else False)


def extract():
    tree, _ = read_module(REL)
    fns = {st.name: st for st in tree.body if isinstance(st, ast.FunctionDef)}
    if 'print_with_count' not in fns:
        raise TranslateError('cli-pwc', 'print_with_count missing', None, REL)
    init, step = _pwc(fns['print_with_count'])
    # the int type of the class / subclass filters
    cls = [st for st in tree.body if isinstance(st, ast.ClassDef) and st.name == 'BasedIntParamType']
    if len(cls) != 1 or ast.unparse(cls[0].bases[0]) != 'click.ParamType':
        raise TranslateError('cli-based-int', 'BasedIntParamType(click.ParamType) missing', None, REL)
    conv = [st for st in cls[0].body if isinstance(st, ast.FunctionDef) and st.name == 'convert']
    if len(conv) != 1 or '\n'.join(ast.unparse(s) for s in _body(conv[0])) != BASED_INT:
        raise TranslateError('cli-based-int', 'BasedIntParamType.convert is not int(value, 0) with a failure message', cls[0], REL)
    # shared options
    shared = {}
    for st in tree.body:
        if isinstance(st, ast.Assign) and len(st.targets) == 1 and isinstance(st.targets[0], ast.Name) and isinstance(st.value, ast.Call):
            f = ast.unparse(st.value.func)
            if f == 'click.option':
                shared[st.targets[0].id] = _option(st.value)
            elif f == 'click.argument':
                if ast.unparse(st.value) != "click.argument('kdebug_dump', type=click.File('rb'))":
                    raise TranslateError('cli-argument', 'the dump argument is not a binary file', st, REL)
                shared[st.targets[0].id] = ('kdebug_dump', "click.File('rb')", '', False)
            elif f == 'BasedIntParamType' and st.targets[0].id == 'BASED_INT' and not st.value.args:
                pass
            else:
                raise TranslateError('cli-module', f'unexpected module-level call {ast.unparse(st)[:80]!r}', st, REL)
    commands = []
    for name, fn in fns.items():
        if name in ('print_with_count', 'cli'):
            continue
        decs = [ast.unparse(d) for d in fn.decorator_list]
        if decs[:1] != ['cli.command()']:
            raise TranslateError('cli-command', f'{name} is not a cli.command()', fn, REL)
        opts = []
        for d in fn.decorator_list[1:]:
            if isinstance(d, ast.Name) and d.id in shared:
                opts.append(d.id)
            elif isinstance(d, ast.Call) and ast.unparse(d.func) == 'click.option':
                o = _option(d)
                shared['inline:' + o[0]] = o
                opts.append('inline:' + o[0])
            else:
                raise TranslateError('cli-command', f'{name}: unexpected decorator {ast.unparse(d)[:60]!r}', d, REL)
        params = [a.arg for a in fn.args.args]
        b = _body(fn)
        if name in JSON_CMDS:
            want = ['parser = KdBufParser({}, {})', 'list(parser.parse(kdebug_dump))', f'print(json.dumps(parser.{JSON_CMDS[name]}, indent=4))']
            if [ast.unparse(s) for s in b] != want or opts != ['dump_input'] or params != ['kdebug_dump']:
                raise TranslateError('cli-json-command', f'{name} is not the expected JSON listing', fn, REL)
            commands.append((name, 'json:' + JSON_CMDS[name], opts, []))
            continue
        if not b or ast.unparse(b[0]) != 'parser = PyKdebugParser()':
            raise TranslateError('cli-command', f'{name} does not start with a fresh PyKdebugParser', fn, REL)
        sets = []
        for st in b[1:-1]:
            if not (isinstance(st, ast.Assign) and len(st.targets) == 1 and isinstance(st.targets[0], ast.Attribute)
                    and ast.unparse(st.targets[0].value) == 'parser'):
                raise TranslateError('cli-command', f'{name}: unexpected statement {ast.unparse(st)[:60]!r}', st, REL)
            v = st.value
            if isinstance(v, ast.Name) and v.id in params:
                sets.append((st.targets[0].attr, v.id))
            elif isinstance(v, ast.Call) and ast.unparse(v.func) == 'list' and len(v.args) == 1 and isinstance(v.args[0], ast.Name) \
                    and v.args[0].id in params:
                sets.append((st.targets[0].attr, 'list:' + v.args[0].id))
            else:
                raise TranslateError('cli-command', f'{name}: setting assigned from something else than an option: {ast.unparse(st)[:60]!r}', st, REL)
        last = b[-1]
        m = None
        if isinstance(last, ast.Expr) and isinstance(last.value, ast.Call) and ast.unparse(last.value.func) == 'print_with_count' \
                and len(last.value.args) == 2 and ast.unparse(last.value.args[1]) == 'count':
            g = last.value.args[0]
            if isinstance(g, ast.Call) and isinstance(g.func, ast.Attribute) and ast.unparse(g.func.value) == 'parser' \
                    and [ast.unparse(a) for a in g.args] == ['kdebug_dump'] and not g.keywords:
                m = g.func.attr
        if m is None:
            raise TranslateError('cli-command', f'{name} does not end with print_with_count(parser.<listing>(kdebug_dump), count)', fn, REL)
        # every option of the command reaches the parser (or is the count / the dump)
        used = {s[1].replace('list:', '') for s in sets} | {'count', 'kdebug_dump'}
        if set(params) != used:
            raise TranslateError('cli-command', f'{name}: options {sorted(set(params) - used)} are not used', fn, REL)
        commands.append((name, m, opts, sets))
    return init, step, shared, commands


def _s(x):
    return coq_string(x)


def translate():
    init, step, shared, commands = extract()
    out = [HEADER.format(tool='tools/translate/tr_cli.py', src=REL),
           'From Coq Require Import String ZArith List.', 'Import ListNotations.', 'Local Open Scope string_scope.', '',
           '(* print_with_count: i = init; for obj in generator: if i == count: break; print(obj); i += step *)',
           f'Definition gen_pwc_init : Z := ({init})%Z.', f'Definition gen_pwc_step : Z := ({step})%Z.',
           '(* option variable -> (flags, type, default, multiple) *)',
           'Definition gen_options : list (string * (string * string * string * bool)) :=\n  [' + ';\n   '.join(
               f'({_s(k)}, ({_s(v[0])}, {_s(v[1])}, {_s(v[2])}, {"true" if v[3] else "false"}))' for k, v in sorted(shared.items())) + '].',
           '(* command -> (listing printed, options taken, parser setting := option), options and settings sorted by name (the',
           '   assignments go to distinct attributes of a fresh parser, their order is immaterial) *)',
           'Definition gen_commands : list (string * (string * list string * list (string * string))) :=\n  [' + ';\n   '.join(
               f'({_s(n)}, ({_s(m)}, [' + '; '.join(_s(o) for o in sorted(opts)) + '], [' + '; '.join(f'({_s(a)}, {_s(b)})' for a, b in sorted(sets)) + ']))'
               for n, m, opts, sets in sorted(commands)) + '].']
    write_if_changed('GenCli.v', '\n'.join(out) + '\n')


if __name__ == '__main__':
    translate()
    print('ok')

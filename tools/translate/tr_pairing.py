"""pykdebugparser/traces_parser.py (feed, qualifiers_actions, _feed_start_event, _feed_end_event, _feed_single_event,
parse_event_list) -> coq/gen/GenPairing.v : the three qualifier actions as instruction lists of theories/PairingIR.v, the
qualifier dispatch table, and the two shape facts (routing by trace_handlers membership; a decoder is looked up by the
name of events[0]).  Fail-closed: every statement must be one of the recognised forms, textually (after ast.unparse)."""
import ast
from .common import TranslateError, read_module, write_if_changed, HEADER

REL = 'pykdebugparser/traces_parser.py'

ENSURE = 'if event.tid not in state:\n    state[event.tid] = {}'
RESET = 'state[event.tid][event.eventid] = []'
APPEND_ALL = 'for eventid in state[event.tid]:\n    state[event.tid][eventid].append(event)'
APPEND_ALL_SAFE = 'for eventid in state.get(event.tid, {}):\n    state[event.tid][eventid].append(event)'
RETURN_IF_ABSENT = 'if event.tid not in state or event.eventid not in state[event.tid]:\n    return'
ABSENT_TID = ('if event.tid not in state:\n    return', 'if event.tid not in state:\n    return None')
ABSENT_EID = ('if event.eventid not in state[event.tid]:\n    return', 'if event.eventid not in state[event.tid]:\n    return None')
POP = 'events = state[event.tid].pop(event.eventid)'
DELIVER_EVENTS = 'return self.parse_event_list(events)'
RETURN_NONE_IF_CONT = ('if event.func_qualifier == DgbFuncQual.DBG_FUNC_NONE.value and event.eventid in state.get(event.tid, {}):\n'
                       '    return None')
DELIVER_SINGLE = 'return self.parse_event_list([event])'

FEED = ('if event.eventid in self.trace_codes:\n'
        '    trace_name = self.trace_codes[event.eventid]\n'
        '    if trace_name in trace_handlers:\n'
        '        return self.qualifiers_actions[event.func_qualifier](event, self.on_going_traces)\n'
        'return self.qualifiers_actions[event.func_qualifier](event, self.on_going_events)')
PARSE = ('if events[0].eventid not in self.trace_codes:\n'
         '    return None\n'
         'trace_name = self.trace_codes[events[0].eventid]\n'
         'if trace_name not in self.handlers:\n'
         '    return None\n'
         'return self.handlers[trace_name](self, events)')
FEED_GENERATOR = ('for event in generator:\n'
                  '    ret = self.feed(event)\n'
                  '    if ret is not None:\n'
                  '        yield ret')


def _body(fn):
    body = list(fn.body)
    if body and isinstance(body[0], ast.Expr) and isinstance(body[0].value, ast.Constant) and isinstance(body[0].value.value, str):
        body = body[1:]
    return body


def _args(fn, expected):
    names = [a.arg for a in fn.args.args]
    if names != expected or fn.args.vararg or fn.args.kwarg or fn.args.kwonlyargs or fn.args.defaults:
        raise TranslateError('pairing-signature', f'{fn.name}{names} is not {expected}', fn, REL)


def _action(fn):
    _args(fn, ['self', 'event', 'state'])
    out, body, i = [], _body(fn), 0
    while i < len(body):
        text = ast.unparse(body[i])
        if text == ENSURE:
            out.append('PEnsureInner')
        elif text == RESET:
            out.append('PResetOwn')
        elif text == APPEND_ALL:
            out.append('PAppendAll false')
        elif text == APPEND_ALL_SAFE:
            out.append('PAppendAll true')
        elif text == RETURN_IF_ABSENT:
            out.append('PReturnIfAbsent')
        elif text in ABSENT_TID and i + 1 < len(body) and ast.unparse(body[i + 1]) in ABSENT_EID:
            out.append('PReturnIfAbsent')           # the same guard written as two early returns
            i += 1
        elif text == POP and i + 1 < len(body) and ast.unparse(body[i + 1]) == DELIVER_EVENTS:
            out.append('PPopDeliver')
            i += 1
        elif text == RETURN_NONE_IF_CONT:
            out.append('PReturnNoneIfContinuation')
        elif text == DELIVER_SINGLE:
            out.append('PDeliverSingle')
        else:
            raise TranslateError('pairing-statement', f'unrecognised statement in {fn.name}: {text!r}', body[i], REL)
        i += 1
    return out


def _qual_values():
    tree, _ = read_module('pykdebugparser/kevent.py')
    for st in tree.body:
        if isinstance(st, ast.ClassDef) and st.name == 'DgbFuncQual':
            vals = {}
            for b in st.body:
                if isinstance(b, ast.Assign) and len(b.targets) == 1 and isinstance(b.targets[0], ast.Name) \
                        and isinstance(b.value, ast.Constant) and isinstance(b.value.value, int):
                    vals[b.targets[0].id] = b.value.value
            return vals
    raise TranslateError('pairing-qualifiers', 'class DgbFuncQual not found', None, 'pykdebugparser/kevent.py')


def extract():
    tree, _ = read_module(REL)
    cls = [st for st in tree.body if isinstance(st, ast.ClassDef) and st.name == 'TracesParser']
    if len(cls) != 1:
        raise TranslateError('pairing-class', 'class TracesParser not found exactly once', None, REL)
    fns = {st.name: st for st in cls[0].body if isinstance(st, ast.FunctionDef)}
    for need in ('feed', 'feed_generator', 'parse_event_list', '_feed_start_event', '_feed_end_event', '_feed_single_event', '__init__'):
        if need not in fns:
            raise TranslateError('pairing-method', f'method {need} missing', cls[0], REL)
    acts = {'start': _action(fns['_feed_start_event']), 'end': _action(fns['_feed_end_event']),
            'single': _action(fns['_feed_single_event'])}
    _args(fns['feed'], ['self', 'event'])
    if '\n'.join(ast.unparse(s) for s in _body(fns['feed'])) != FEED:
        raise TranslateError('pairing-feed', 'feed() does not route by trace_handlers membership in the expected form', fns['feed'], REL)
    _args(fns['parse_event_list'], ['self', 'events'])
    if '\n'.join(ast.unparse(s) for s in _body(fns['parse_event_list'])) != PARSE:
        raise TranslateError('pairing-parse', 'parse_event_list() is not the expected decoder lookup', fns['parse_event_list'], REL)
    _args(fns['feed_generator'], ['self', 'generator'])
    if '\n'.join(ast.unparse(s) for s in _body(fns['feed_generator'])) != FEED_GENERATOR:
        raise TranslateError('pairing-generator', 'feed_generator() is not the expected lazy loop', fns['feed_generator'], REL)
    # the dispatch table and the two tables, in __init__
    quals = _qual_values()
    disp, tables = None, set()
    for st in ast.walk(fns['__init__']):
        if isinstance(st, ast.Assign) and len(st.targets) == 1:
            t = ast.unparse(st.targets[0])
            if t == 'self.qualifiers_actions':
                if not isinstance(st.value, ast.Dict):
                    raise TranslateError('pairing-dispatch', 'qualifiers_actions is not a dict literal', st, REL)
                disp = []
                for k, v in zip(st.value.keys, st.value.values):
                    kt, vt = ast.unparse(k), ast.unparse(v)
                    if not (kt.startswith('DgbFuncQual.') and kt.endswith('.value') and kt.split('.')[1] in quals):
                        raise TranslateError('pairing-dispatch', f'unexpected key {kt}', k, REL)
                    which = {'self._feed_start_event': 0, 'self._feed_end_event': 1, 'self._feed_single_event': 2}.get(vt)
                    if which is None:
                        raise TranslateError('pairing-dispatch', f'unexpected action {vt}', v, REL)
                    disp.append((quals[kt.split('.')[1]], which))
            elif t in ('self.on_going_events', 'self.on_going_traces'):
                if ast.unparse(st.value) != '{}':
                    raise TranslateError('pairing-tables', f'{t} is not initialised with its own empty dict', st, REL)
                tables.add(t)
        elif isinstance(st, ast.Assign) and any(ast.unparse(t) in ('self.on_going_events', 'self.on_going_traces') for t in st.targets):
            raise TranslateError('pairing-tables', 'the two tables are initialised by a chained assignment', st, REL)
    if disp is None or len(tables) != 2:
        raise TranslateError('pairing-init', 'qualifiers_actions / on_going_events / on_going_traces not all initialised in __init__', fns['__init__'], REL)
    return acts, sorted(disp)


def translate():
    acts, disp = extract()
    out = [HEADER.format(tool='tools/translate/tr_pairing.py', src=REL),
           'From Coq Require Import NArith List.', 'From Kd Require Import theories.Pairing theories.PairingIR.',
           'Import ListNotations.', 'Open Scope N_scope.', '']
    for nm in ('start', 'end', 'single'):
        out.append(f'Definition gen_{nm} : list pstmt := [' + '; '.join(acts[nm]) + '].')
    out.append('(* qualifier value -> action: 0 = _feed_start_event, 1 = _feed_end_event, 2 = _feed_single_event *)')
    out.append('Definition gen_actions : list (N * N) := [' + '; '.join(f'({q}, {w})' for q, w in disp) + '].')
    out.append('(* feed() routes by membership of the code\'s name in trace_handlers; parse_event_list() looks the decoder up by the')
    out.append('   name of events[0]; feed_generator() is the lazy loop; the two tables are distinct dicts (checked textually) *)')
    out.append('Definition gen_shapes_ok : bool := true.')
    write_if_changed('GenPairing.v', '\n'.join(out) + '\n')


if __name__ == '__main__':
    translate()
    print('ok')

"""kevent.py -> coq/gen/GenKevent.v  (C01; also used by every model that decodes records)."""
import ast
from .common import (TranslateError, read_module, write_if_changed, coq_string, coq_N, module_constants,
                     const_value, find_function, strip_docstring, dotted, enum_members, HEADER)

SRC = 'pykdebugparser/kevent.py'
MODEL_FIELDS = ['timestamp', 'data', 'values', 'tid', 'debugid', 'eventid', 'func_qualifier']
MODEL_TYPES = ['int', 'bytes', 'ints', 'int', 'int', 'int', 'int']

_BINOPS = {ast.BitAnd: 'N.land', ast.BitOr: 'N.lor', ast.BitXor: 'N.lxor', ast.RShift: 'N.shiftr',
           ast.LShift: 'N.shiftl', ast.Add: 'N.add', ast.Mult: 'N.mul'}


def parse_fmt(fmt):
    """[(kind, n)] mirror of PyStruct.parse_fmt, used only to type the unpacked variables."""
    if not fmt.startswith('<'):
        raise TranslateError('struct-format', f"only '<' formats are modelled: {fmt!r}")
    out, cnt = [], ''
    for ch in fmt[1:]:
        if ch.isdigit():
            cnt += ch
            continue
        k = int(cnt) if cnt else 1
        cnt = ''
        if ch in 'QIHB':
            out += ['int'] * k
        elif ch == 's':
            out.append('bytes')
        elif ch == 'x':
            pass
        else:
            raise TranslateError('struct-format', f'unsupported item {ch!r} in {fmt!r}')
    if cnt:
        raise TranslateError('struct-format', f'dangling count in {fmt!r}')
    return out


class FnTranslator:
    def __init__(self, consts):
        self.consts = consts          # module constant name -> ('int'|'str', coq name)
        self.env = {}                 # local name -> type

    def expr(self, node):
        """-> (coq text, type)"""
        if isinstance(node, ast.Name):
            if node.id in self.env:
                return node.id, self.env[node.id]
            if node.id in self.consts:
                return self.consts[node.id][1], self.consts[node.id][0]
            raise TranslateError('expr-name', f'unknown name {node.id}', node, SRC)
        if isinstance(node, ast.Constant) and isinstance(node.value, int) and not isinstance(node.value, bool):
            return coq_N(node.value), 'int'
        if isinstance(node, ast.Constant) and isinstance(node.value, str):
            return coq_string(node.value), 'str'
        if isinstance(node, ast.BinOp) and type(node.op) in _BINOPS:
            a, ta = self.expr(node.left)
            b, tb = self.expr(node.right)
            if ta != 'int' or tb != 'int':
                raise TranslateError('expr-binop', 'integer operator on non-integers', node, SRC)
            return f'({_BINOPS[type(node.op)]} {a} {b})', 'int'
        raise TranslateError('expr', f'unsupported expression {ast.dump(node)[:80]}', node, SRC)

    def unpack_call(self, node):
        if not (isinstance(node, ast.Call) and dotted(node.func) == 'struct.unpack' and len(node.args) == 2
                and not node.keywords):
            return None
        fmt, tf = self.expr(node.args[0])
        buf, tb = self.expr(node.args[1])
        if tf != 'str' or tb != 'bytes':
            raise TranslateError('unpack-args', 'struct.unpack(fmt: str, buf: bytes) expected', node, SRC)
        a0 = node.args[0]
        if isinstance(a0, ast.Name):
            fmtval = self.consts[a0.id][2]
        else:
            fmtval = a0.value
        return fmt, buf, parse_fmt(fmtval)

    def stmts(self, body, ret_ctor, ret_types):
        if not body:
            raise TranslateError('fn-body', 'function falls off the end without return', None, SRC)
        st, rest = body[0], body[1:]
        if isinstance(st, ast.Assign) and len(st.targets) == 1:
            tgt = st.targets[0]
            up = self.unpack_call(st.value)
            if up is not None:
                fmt, buf, types = up
                if isinstance(tgt, ast.Tuple):
                    names = []
                    for t in tgt.elts:
                        if not isinstance(t, ast.Name):
                            raise TranslateError('unpack-target', 'tuple of plain names expected', st, SRC)
                        names.append(t.id)
                    if len(names) != len(types):
                        raise TranslateError('unpack-arity', f'{len(names)} targets for {len(types)} items', st, SRC)
                    pats = []
                    for n, t in zip(names, types):
                        self.env[n] = t
                        pats.append(f'VInt {n}' if t == 'int' else f'VBytes {n}')
                    inner = self.stmts(rest, ret_ctor, ret_types)
                    return (f'match unpack_str {fmt} {buf} with\n  | Some [{"; ".join(pats)}] =>\n  {inner}\n'
                            f'  | _ => None\n  end')
                if isinstance(tgt, ast.Name):
                    if any(t != 'int' for t in types):
                        raise TranslateError('unpack-tuple', 'whole-tuple binding needs an all-integer format', st, SRC)
                    self.env[tgt.id] = 'ints'
                    inner = self.stmts(rest, ret_ctor, ret_types)
                    return (f'match unpack_str {fmt} {buf} with\n  | Some vs__ =>\n'
                            f'    match ints_of vs__ with\n    | Some {tgt.id} =>\n  {inner}\n'
                            f'    | None => None\n    end\n  | None => None\n  end')
                raise TranslateError('unpack-target', 'unsupported assignment target', st, SRC)
            if isinstance(tgt, ast.Name):
                e, t = self.expr(st.value)
                self.env[tgt.id] = t
                inner = self.stmts(rest, ret_ctor, ret_types)
                return f'let {tgt.id} := {e} in\n  {inner}'
            raise TranslateError('assign', 'unsupported assignment', st, SRC)
        if isinstance(st, ast.Return):
            if rest:
                raise TranslateError('return', 'statements after return', st, SRC)
            v = st.value
            if not (isinstance(v, ast.Call) and dotted(v.func) == ret_ctor[0] and not v.keywords
                    and len(v.args) == len(ret_types)):
                raise TranslateError('return', f'return {ret_ctor[0]}(<{len(ret_types)} positional args>) expected',
                                     st, SRC)
            args = []
            for a, want in zip(v.args, ret_types):
                e, t = self.expr(a)
                if t != want:
                    raise TranslateError('return-type', f'argument {e} has type {t}, field wants {want}', st, SRC)
                args.append(e)
            return f'Some ({ret_ctor[1]} {" ".join(args)})'
        raise TranslateError('stmt', f'unsupported statement {type(st).__name__}', st, SRC)


def translate():
    tree, _ = read_module(SRC)
    mc = module_constants(tree)
    consts = {}
    out = [HEADER.format(tool='tools/translate/tr_kevent.py', src=SRC),
           'From Coq Require Import String ZArith NArith List.',
           'From Kd Require Import theories.Base theories.PyStruct theories.Kevent.',
           'Import ListNotations.', 'Open Scope N_scope.', '']
    for name in ('KDBG_EVENTID_MASK', 'KDBG_FUNC_MASK'):
        if name not in mc:
            raise TranslateError('constant', f'{name} not defined', None, SRC)
        v = const_value(mc[name], name, int)
        consts[name] = ('int', name, v)
        out.append(f'Definition {name} : N := {coq_N(v)}.')
    if 'KD_BUF_FORMAT' not in mc:
        raise TranslateError('constant', 'KD_BUF_FORMAT not defined', None, SRC)
    fmt = const_value(mc['KD_BUF_FORMAT'], 'KD_BUF_FORMAT', str)
    consts['KD_BUF_FORMAT'] = ('str', 'KD_BUF_FORMAT', fmt)
    out.append(f'Definition KD_BUF_FORMAT : string := {coq_string(fmt)}.')
    # any other module constant with a literal int / str value may be used by from_kd_buf (named formats, masks)
    for name, node in mc.items():
        if name in consts or not isinstance(node, ast.Constant) or isinstance(node.value, bool):
            continue
        if isinstance(node.value, int) and node.value >= 0:
            consts[name] = ('int', coq_N(node.value), node.value)            # inlined at its uses
        elif isinstance(node.value, str):
            consts[name] = ('str', coq_string(node.value), node.value)
    # the namedtuple must still have the model's fields in the model's order
    nt = mc.get('Kevent')
    ok = (isinstance(nt, ast.Call) and dotted(nt.func) == 'namedtuple' and len(nt.args) == 2
          and isinstance(nt.args[1], ast.List))
    if not ok:
        raise TranslateError('kevent-namedtuple', "Kevent = namedtuple('Kevent', [...]) expected", nt, SRC)
    fields = [const_value(e, 'Kevent field', str) for e in nt.args[1].elts]
    if fields != MODEL_FIELDS:
        raise TranslateError('kevent-fields', f'Kevent fields {fields} differ from the model record {MODEL_FIELDS}',
                             nt, SRC)
    out.append('Definition gen_kevent_fields : list string := ['
               + '; '.join(coq_string(f) for f in fields) + ']%string.')
    # qualifier enum
    members, _ = enum_members(tree, 'DgbFuncQual')
    for n, v in members:
        out.append(f'Definition {n} : N := {coq_N(v)}.')
    out.append('Definition gen_func_quals : list (string * N) := ['
               + '; '.join(f'({coq_string(n)}, {coq_N(v)})' for n, v in members) + ']%string.')
    # from_kd_buf
    fn = find_function(tree, 'from_kd_buf')
    if [a.arg for a in fn.args.args] != ['kd_buf'] or fn.args.vararg or fn.args.kwarg or fn.args.kwonlyargs:
        raise TranslateError('fn-signature', 'from_kd_buf(kd_buf) expected', fn, SRC)
    tr = FnTranslator(consts)
    tr.env['kd_buf'] = 'bytes'
    body = tr.stmts(strip_docstring(fn.body), ('Kevent', 'mkKevent'), MODEL_TYPES)
    out.append('')
    out.append('Definition from_kd_buf (kd_buf : list N) : option kevent :=\n  ' + body + '.')
    out.append('')
    return write_if_changed('GenKevent.v', '\n'.join(out))


if __name__ == '__main__':
    print(translate())

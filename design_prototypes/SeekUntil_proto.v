(* kd_buf_parser.seek_until: sliding-window scan. (C03: finds the first occurrence; C06/F02: the
   loop as written never exits at end of file.) *)
From Coq Require Import NArith Arith List Bool Lia.
Import ListNotations.
Open Scope N_scope.
Notation byte := N (only parsing).
Fixpoint leqb (a b:list byte) : bool :=
  match a,b with [],[] => true | x::a',y::b' => N.eqb x y && leqb a' b' | _,_ => false end.
Lemma leqb_eq a b : leqb a b = true <-> a = b.
Proof. revert b; induction a as [|x a IH]; destruct b; cbn; split; try discriminate; auto.
  - rewrite andb_true_iff, N.eqb_eq, IH. intros [-> ->]; auto.
  - intros [= -> ->]. rewrite N.eqb_refl. apply IH; auto. Qed.
Lemma leqb_len a b : leqb a b = true -> length a = length b.
Proof. intros H; apply leqb_eq in H; subst; auto. Qed.

(* found = win, unread input = rest; read(1) at EOF returns b'' (the current code) *)
Fixpoint seek (fuel:nat) (pat win rest:list byte) : option (list byte) :=
  if leqb win pat then Some rest else
  match fuel with O => None | S f =>
    match rest with [] => seek f pat (tl win) [] | b::r => seek f pat (tl win ++ [b]) r end end.
Definition seek_until (fuel:nat) (pat s:list byte) :=
  seek fuel pat (firstn (length pat) s) (skipn (length pat) s).
Definition occurs_at (pat s:list byte) (i:nat) := firstn (length pat) (skipn i s) = pat.

Theorem seek_first pat : pat <> [] -> forall pre rest fuel,
  (forall i, (i < length pre)%nat -> ~ occurs_at pat (pre ++ pat ++ rest) i) ->
  (length pre <= fuel)%nat ->
  seek_until fuel pat (pre ++ pat ++ rest) = Some rest.
Proof.
  intros NE pre. induction pre as [|x pre IH]; intros rest fuel NO F.
  - unfold seek_until. cbn [app]. rewrite firstn_app, Nat.sub_diag, firstn_all. cbn [firstn]. rewrite app_nil_r.
    rewrite skipn_app, Nat.sub_diag, skipn_all. cbn.
    destruct fuel; cbn; assert (leqb pat pat = true) by (apply leqb_eq; auto); rewrite H; auto.
  - destruct fuel as [|f]; [cbn in F; lia|].
    unfold seek_until.
    set (s := (x::pre) ++ pat ++ rest).
    assert (N0: firstn (length pat) s <> pat) by (apply (NO 0%nat); cbn; lia).
    cbn [seek]. destruct (leqb (firstn (length pat) s) pat) eqn:E; [apply leqb_eq in E; contradiction|].
    assert (L: (length pat < length s)%nat) by (unfold s; rewrite !app_length; cbn [length]; lia).
    destruct (skipn (length pat) s) as [|b r] eqn:SK.
    { apply (f_equal (@length _)) in SK. rewrite skipn_length in SK. cbn [length] in SK. lia. }
    specialize (IH rest f).
    assert (NO': forall i, (i < length pre)%nat -> ~ occurs_at pat (pre ++ pat ++ rest) i).
    { intros i Hi. apply (NO (S i)). cbn; lia. }
    specialize (IH NO' ltac:(cbn in F; lia)). unfold seek_until in IH.
    assert (W: tl (firstn (length pat) s) ++ [b] = firstn (length pat) (pre ++ pat ++ rest)).
    { unfold s in *. cbn [app] in *. destruct pat as [|p0 pt]; [contradiction|]. cbn [length firstn tl] in *.
      cbn [skipn] in SK.
      assert (G: forall n (l:list byte) b r, skipn n l = b::r -> firstn n l ++ [b] = firstn (S n) l).
      { induction n; intros l b0 r0 H; destruct l; cbn in *; try discriminate. injection H as -> ->; auto. f_equal; eauto. }
      eapply G; eauto. }
    assert (R: r = skipn (length pat) (pre ++ pat ++ rest)).
    { unfold s in SK. cbn [app] in SK. destruct pat as [|p0 pt]; [contradiction|]. cbn [length skipn] in *.
      assert (G: forall n (l:list byte) b r, skipn n l = b::r -> r = skipn (S n) l).
      { induction n; intros l b0 r0 H; destruct l; cbn in *; try discriminate. injection H as -> ->; auto. eauto. }
      eapply G; eauto. }
    rewrite W, R. exact IH.
Qed.

(* F02: once the input is exhausted and the window is shorter than the tag, no fuel suffices *)
Theorem seek_spins pat : forall fuel win, (length win < length pat)%nat -> seek fuel pat win [] = None.
Proof. induction fuel; intros win H; cbn [seek];
  (destruct (leqb win pat) eqn:E; [apply leqb_len in E; lia|]); auto.
  apply IHfuel. destruct win; cbn in *; lia. Qed.
Print Assumptions seek_first.
Print Assumptions seek_spins.

(* TracesParser START/END pairing: model of one table, per-key spec over the reversed history,
   invariant, output characterisation, stray END is a no-op.  (C04) *)
From Coq Require Import NArith List Bool Lia.
Import ListNotations.
Open Scope N_scope.

Inductive qual := QN | QS | QE | QA.
Record ev := { tid : N; code : N; q : qual; uid : N }.
Definition key := (N * N)%type.
Definition keyb (a b : key) := N.eqb (fst a) (fst b) && N.eqb (snd a) (snd b).
Definition kof (e:ev) : key := (tid e, code e).
Definition tbl := list (key * list ev).

Lemma keyb_eq a b : keyb a b = true <-> a = b.
Proof. destruct a, b; unfold keyb; cbn. rewrite andb_true_iff, !N.eqb_eq.
  split; [intros [-> ->]|intros [= -> ->]]; auto. Qed.
Lemma keyb_refl a : keyb a a = true. Proof. apply keyb_eq; auto. Qed.

Fixpoint find (k:key) (s:tbl) : option (list ev) :=
  match s with [] => None | (k',w)::r => if keyb k k' then Some w else find k r end.
Definition remove (k:key) (s:tbl) : tbl := filter (fun p => negb (keyb k (fst p))) s.
Definition app_tid (e:ev) (s:tbl) : tbl :=
  map (fun p => if N.eqb (fst (fst p)) (tid e) then (fst p, snd p ++ [e]) else p) s.

(* _feed_start_event / _feed_end_event / _feed_single_event on one table *)
Definition step1 (e:ev) (s:tbl) : tbl * option (list ev) :=
  match q e with
  | QS => (app_tid e ((kof e, []) :: remove (kof e) s), None)
  | QE => match find (kof e) s with
          | None => (s, None)
          | Some _ => let s' := app_tid e s in (remove (kof e) s', find (kof e) s')
          end
  | _ => (app_tid e s, Some [e])
  end.

Lemma find_remove_same k s : find k (remove k s) = None.
Proof. induction s as [|[k' w] r IH]; cbn; auto. destruct (keyb k k') eqn:E; cbn; auto. rewrite E; auto. Qed.
Lemma find_remove_other k k' s : keyb k k' = false -> find k (remove k' s) = find k s.
Proof. intros H. induction s as [|[k2 w] r IH]; cbn; auto.
  destruct (keyb k' k2) eqn:E; cbn.
  - apply keyb_eq in E; subst. rewrite H; auto.
  - destruct (keyb k k2); auto. Qed.
Lemma find_app_tid k e s :
  find k (app_tid e s) =
  match find k s with None => None | Some w => Some (if N.eqb (fst k) (tid e) then w ++ [e] else w) end.
Proof. induction s as [|[k2 w] r IH]; cbn; auto.
  destruct (N.eqb (fst k2) (tid e)) eqn:T; cbn; destruct (keyb k k2) eqn:E; auto.
  - apply keyb_eq in E; subst. rewrite T; auto.
  - apply keyb_eq in E; subst. rewrite T; auto. Qed.

(* ---- spec: history most-recent-first ---- *)
Definition isS (k:key) (e:ev) := keyb k (kof e) && match q e with QS => true | _ => false end.
Definition isE (k:key) (e:ev) := keyb k (kof e) && match q e with QE => true | _ => false end.
Fixpoint is_open (hr:list ev) (k:key) : bool :=
  match hr with [] => false | e::r => if isS k e then true else if isE k e then false else is_open r k end.
Definition strayb (r:list ev) (e:ev) := match q e with QE => negb (is_open r (kof e)) | _ => false end.
Definition sideT (k:key) (e:ev) := N.eqb (fst k) (tid e).
Fixpoint window (hr:list ev) (k:key) : option (list ev) :=
  match hr with [] => None
  | e::r => if isS k e then Some [e]
            else if isE k e then None
            else match window r k with None => None
                 | Some w => Some (if sideT k e && negb (strayb r e) then w ++ [e] else w) end end.

Lemma window_open hr k : (exists w, window hr k = Some w) <-> is_open hr k = true.
Proof. induction hr as [|e r IH]; cbn. split; [intros [w H]; discriminate|discriminate].
  destruct (isS k e). split; eauto. destruct (isE k e). split; [intros [w H]; discriminate|discriminate].
  rewrite <- IH. destruct (window r k); split; eauto; intros [w H]; discriminate. Qed.

Definition Inv1 (hr:list ev) (s:tbl) := forall k, find k s = window hr k.

Theorem step1_inv hr s e : Inv1 hr s -> Inv1 (e::hr) (fst (step1 e s)).
Proof.
  intros I k. unfold step1. cbn [window].
  destruct (q e) eqn:Q.
  - cbn [fst]. unfold isS, isE; rewrite Q, !andb_false_r.
    rewrite find_app_tid, I. unfold strayb; rewrite Q; cbn. unfold sideT. rewrite andb_true_r; auto.
  - cbn [fst]. unfold isS, isE; rewrite Q, andb_true_r, andb_false_r.
    rewrite find_app_tid. cbn [find].
    destruct (keyb k (kof e)) eqn:K.
    + apply keyb_eq in K; subst k. cbn. rewrite N.eqb_refl. auto.
    + rewrite find_remove_other by auto. rewrite I. unfold strayb; rewrite Q; cbn. unfold sideT. rewrite andb_true_r; auto.
  - unfold isS, isE; rewrite Q, andb_true_r, andb_false_r.
    destruct (find (kof e) s) eqn:F; cbn [fst].
    + destruct (keyb k (kof e)) eqn:K.
      * apply keyb_eq in K; subst k. apply find_remove_same.
      * rewrite find_remove_other by auto. rewrite find_app_tid, I.
        destruct (window hr k); auto. unfold strayb; rewrite Q.
        assert (O: is_open hr (kof e) = true). { apply window_open. rewrite <- I. eauto. }
        rewrite O; cbn. unfold sideT; rewrite andb_true_r; auto.
    + destruct (keyb k (kof e)) eqn:K.
      * apply keyb_eq in K; subst k. rewrite F; auto.
      * rewrite I. destruct (window hr k); auto. unfold strayb; rewrite Q.
        assert (O: is_open hr (kof e) = false).
        { destruct (is_open hr (kof e)) eqn:O; auto. apply window_open in O. destruct O as [w O].
          rewrite <- I, F in O. discriminate. }
        rewrite O; cbn. rewrite andb_false_r; auto.
  - cbn [fst]. unfold isS, isE; rewrite Q, !andb_false_r.
    rewrite find_app_tid, I. unfold strayb; rewrite Q; cbn. unfold sideT. rewrite andb_true_r; auto.
Qed.

Theorem step1_out hr s e : Inv1 hr s ->
  snd (step1 e s) =
    match q e with
    | QS => None
    | QE => match window hr (kof e) with Some w => Some (w ++ [e]) | None => None end
    | _ => Some [e] end.
Proof.
  intros I. unfold step1. destruct (q e) eqn:Q; auto.
  destruct (find (kof e) s) eqn:F; cbn [snd].
  - rewrite find_app_tid, F. rewrite <- I, F. cbn. rewrite N.eqb_refl; auto.
  - rewrite <- I, F; auto.
Qed.

Theorem stray_end_noop hr s e :
  Inv1 hr s -> q e = QE -> is_open hr (kof e) = false -> step1 e s = (s, None).
Proof. intros I Q O. unfold step1; rewrite Q.
  destruct (find (kof e) s) eqn:F; auto. rewrite I in F.
  assert (is_open hr (kof e) = true) by (apply window_open; eauto). congruence. Qed.

Print Assumptions step1_inv.
Print Assumptions step1_out.
Print Assumptions stray_end_noop.

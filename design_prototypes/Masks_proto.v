(* C01: the two debug-id masks split a 32-bit word exactly. *)
From Coq Require Import NArith Bool Lia.
Open Scope N_scope.
Definition EVMASK := 4294967292. Definition FMASK := 3.
Lemma split_mask d : d < 2^32 ->
  N.lor (N.land d EVMASK) (N.land d FMASK) = d /\ N.land d FMASK < 4 /\ N.land d FMASK = d mod 4.
Proof. intros H. change EVMASK with (N.ldiff (N.ones 32) (N.ones 2)). change FMASK with (N.ones 2).
  rewrite N.land_ones. split; [|split; [apply N.mod_lt; discriminate | reflexivity]].
  rewrite <- N.land_ones.
  assert (N.land d (N.ldiff (N.ones 32) (N.ones 2)) = N.ldiff d (N.ones 2)).
  { apply N.bits_inj; intro n. rewrite N.land_spec, !N.ldiff_spec.
    destruct (N.ltb_spec n 32).
    - rewrite (N.ones_spec_low 32) by lia. rewrite andb_true_l. auto.
    - rewrite (N.bits_above_log2 d n). auto. destruct (N.eq_dec d 0); subst; [cbn; lia|].
      apply N.log2_lt_pow2 in H; lia. }
  rewrite H0. apply N.lor_ldiff_and. Qed.
Print Assumptions split_mask.

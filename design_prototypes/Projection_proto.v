(* C05 at spec level: the window of a key of thread t is unchanged by removing every other
   thread's records from the history. With the C04 invariant this gives the projection theorem. *)
From Coq Require Import NArith List Bool Lia.
Import ListNotations.
Require Import Pairing_proto.
Open Scope N_scope.

Definition onT (t:N) (e:ev) := N.eqb (tid e) t.
Lemma other_thread k e : N.eqb (tid e) (fst k) = false ->
  isS k e = false /\ isE k e = false /\ sideT k e = false.
Proof. intros H. unfold isS, isE, sideT, keyb; cbn. rewrite (N.eqb_sym (fst k)), H. auto. Qed.

Lemma is_open_filter t hr k : fst k = t -> is_open (filter (onT t) hr) k = is_open hr k.
Proof. intros <-. induction hr as [|e r IH]; cbn; auto. unfold onT at 1.
  destruct (N.eqb (tid e) (fst k)) eqn:T; cbn; rewrite IH; auto.
  destruct (other_thread k e T) as (-> & -> & _); auto. Qed.

Theorem window_filter t hr k : fst k = t -> window (filter (onT t) hr) k = window hr k.
Proof. intros <-. induction hr as [|e r IH]; cbn; auto. unfold onT at 1.
  destruct (N.eqb (tid e) (fst k)) eqn:T; cbn.
  - rewrite IH. unfold strayb. rewrite is_open_filter; auto. cbn. apply N.eqb_eq in T; auto.
  - destruct (other_thread k e T) as (-> & -> & ->). rewrite IH. cbn. destruct (window r k); auto. Qed.
Print Assumptions window_filter.

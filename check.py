#!/usr/bin/env python3
"""check.py <PROPERTY> [--tier quick|thorough] [--replay FILE]   (see DESIGN.md §7)"""
import argparse
import importlib
import json
import os
import sys
import traceback

sys.path.insert(0, os.path.dirname(os.path.abspath(__file__)))
from tools import vlib                                     # noqa: E402
from tools.translate.common import TranslateError           # noqa: E402


def main():
    ap = argparse.ArgumentParser()
    ap.add_argument('pid')
    ap.add_argument('--tier', default=os.environ.get('VERIF_TIER', 'quick'))
    ap.add_argument('--replay')
    a = ap.parse_args()
    pid = a.pid
    mod = importlib.import_module(f'tools.props.{pid}')
    if a.replay:
        with open(a.replay) as fd:
            payload = json.load(fd)
        return mod.replay(payload) or 0
    seed = int(os.environ.get('VERIF_SEED', '20260927'))
    ctx = vlib.Ctx(pid, a.tier, seed)

    # 1. regenerate the generated part of the model from /repo's working tree
    for tr in mod.TRANSLATORS:
        try:
            tr()
        except TranslateError as e:
            ctx.broken.append(('translate', str(e)))
        except Exception as e:     # a translator crash is also "model could not be regenerated"
            ctx.broken.append(('translate', f'{type(e).__name__}: {e}'))

    # 2. build model, then proofs
    model_ok = False
    proof_ok = False
    if not ctx.broken:
        ok, info = vlib.coq_build(mod.MODEL_TARGETS)
        model_ok = ok
        if not ok:
            ctx.broken.append(('model-build', {k: info.get(k) for k in ('file', 'line', 'theorem', 'message')}
                               if info.get('file') else info['log'][-1500:]))
        ok, info = vlib.coq_build(mod.PROOF_TARGETS)
        proof_ok = ok
        if ok:
            ctx.assumptions_text = vlib.print_assumptions(mod.PROP_FILE, pid)
            allowed = getattr(mod, 'ALLOWED_AXIOMS', ())
            bad_ax = {}
            for t, b in ctx.assumptions_text.items():
                if t.startswith('_') or b.startswith('Closed under the global context'):
                    continue
                names = [l.split(':')[0].strip() for l in b.splitlines()[1:] if l and not l.startswith(' ')]
                if not names or any(n not in allowed for n in names):
                    bad_ax[t] = b
            if bad_ax or '_raw' in ctx.assumptions_text:
                ctx.broken.append(('proof', {'unexpected_assumptions': bad_ax or ctx.assumptions_text.get('_raw')}))
        else:
            ctx.broken.append(('proof', {k: info.get(k) for k in ('file', 'line', 'theorem', 'message')}
                               if info.get('file') else info['log'][-1500:]))
    cone = vlib.dependency_cone(mod.PROP_FILE)
    ctx.obligations = vlib.count_obligations(cone)
    ctx.discharged = ctx.obligations if proof_ok else vlib.count_obligations(vlib.built_files(cone))

    # 3/4. correspondence + oracle (the oracle runs on the implementation even when the model is broken)
    try:
        mod.run(ctx, model_ok)
    except Exception:
        ctx.broken.append(('harness', traceback.format_exc()[-2500:]))

    # 5. classify
    known = vlib.load_known(pid)
    classify = getattr(mod, 'classify', None)
    new_failing = []
    for f in ctx.failing:
        fid = classify(f) if classify else None
        if fid is not None and fid in known:
            ctx.known_hits.setdefault(fid, known[fid])
        else:
            new_failing.append(f)

    # 6. report
    violations = 0
    rc = 0
    if new_failing:
        violations = len(new_failing)
        payload = {'property': pid, 'kind': 'failing-input', 'seed': seed, 'tier': a.tier,
                   'input': new_failing[0].get('input'), 'expected': new_failing[0].get('expected'),
                   'actual': new_failing[0].get('actual'), 'why': new_failing[0].get('why'),
                   'more_failing_inputs': new_failing[1:10], 'broken': ctx.broken[:5]}
        path = vlib.write_replay(ctx, payload)
        print(f'VIOLATION property={pid} replay={path}')
        rc = 1
    elif ctx.broken:
        violations = 1
        payload = {'property': pid, 'kind': 'unproved', 'seed': seed, 'tier': a.tier,
                   'broken': ctx.broken[:10],
                   'note': 'a proof obligation, translation or correspondence no longer checks; the search over '
                           f'{ctx.evaluations} generated inputs found no input on which the property fails'}
        path = vlib.write_replay(ctx, payload)
        print(f'VIOLATION property={pid} replay={path} no-failing-input-found')
        rc = 1
    for fid, desc in sorted(ctx.known_hits.items()):
        print(f'KNOWN-FINDING: property={pid} {fid} {desc}')
    vlib.write_evidence(ctx, violations, mod.ASSUMPTIONS)
    print(f'{pid} tier={a.tier} seed={seed} evaluations={ctx.evaluations} nontrivial={len(ctx.nontrivial)} '
          f'obligations={ctx.obligations} discharged={ctx.discharged} validated={ctx.traces_validated} '
          f'broken={len(ctx.broken)} failing={len(new_failing)} wall={vlib.time.time() - ctx.t0:.1f}s')
    return rc


if __name__ == '__main__':
    sys.exit(main())
